package core

import "flag"

func flagSet(name, val string) error { return flag.Set(name, val) }
