// Package core is the per-check context: tier/seed/shard parameters, evidence
// counters, violation and known-finding bookkeeping, and the rapid runner.
package core

import (
	"crypto/sha256"
	"encoding/hex"
	"encoding/json"
	"fmt"
	"os"
	"path/filepath"
	"sort"
	"strconv"
	"strings"
	"sync"
	"testing"
	"time"

	"pgregory.net/rapid"

	"verif/harness/gen"
)

// VerifDir is the verification root (the directory of the driver script).
var VerifDir = func() string {
	if d := os.Getenv("VERIF_DIR"); d != "" {
		return d
	}
	return "/verif"
}()

// Job is one decode request against a generated type (E-run).
type Job struct {
	ID     string `json:"id,omitempty"`
	Pkg    string `json:"pkg,omitempty"`
	Type   string `json:"type"`
	Op     string `json:"op"`  // json | json-method | yaml | yaml-node
	Doc    string `json:"doc"` // document bytes (base64 when DocB64)
	DocB64 bool   `json:"doc_b64,omitempty"`
	Prior  string `json:"prior,omitempty"` // optional prior document decoded first
	// expectations (harness side)
	Expect    string          `json:"expect,omitempty"`     // accept | reject | any
	Rule      string          `json:"rule,omitempty"`       // oracle rule for rejects
	ExpectVal json.RawMessage `json:"expect_val,omitempty"` // expected decoded tree
	Label     string          `json:"label,omitempty"`
	Remarshal bool            `json:"remarshal,omitempty"` // also require the marshal round trip of declared values
	NoPanic   bool            `json:"no_panic,omitempty"`  // (expect any) only totality / all-or-nothing is judged
}

// Replay is the plain-JSON reproduction of one failing case.
type Replay struct {
	Property string          `json:"property"`
	Check    string          `json:"check"`
	Case     *gen.Case       `json:"case,omitempty"`
	Cases    []*gen.Case     `json:"cases,omitempty"`
	Jobs     []Job           `json:"jobs,omitempty"`
	Direct   json.RawMessage `json:"direct,omitempty"`
	Argv     []string        `json:"argv,omitempty"`
	Expected string          `json:"expected,omitempty"`
	Observed string          `json:"observed,omitempty"`
	Seed     int             `json:"seed,omitempty"`
	Note     string          `json:"note,omitempty"`
}

type Finding struct {
	ID       string   `json:"id"`
	Property string   `json:"property"`
	Status   string   `json:"status"` // open | fixed
	What     string   `json:"what"`
	Witness  string   `json:"witness,omitempty"`
	Avoid    []string `json:"avoid,omitempty"`
	FixedBy  string   `json:"fixed_by,omitempty"`
}

type ViolationRec struct {
	Key    string `json:"key"`
	What   string `json:"what"`
	Replay string `json:"replay"`
}

type KnownRec struct {
	ID         string `json:"id"`
	What       string `json:"what"`
	StillFails bool   `json:"still_fails"`
	Detail     string `json:"detail,omitempty"`
}

// Partial is what one test process reports to the driver.
type Partial struct {
	Property    string         `json:"property"`
	Tier        string         `json:"tier"`
	Seed        int            `json:"seed"`
	Shard       int            `json:"shard"`
	WallS       float64        `json:"wall_s"`
	Evaluations int            `json:"evaluations"`
	Programs    int            `json:"programs"`
	Nontrivial  []string       `json:"nontrivial_hashes"`
	Rule        string         `json:"rule"`
	Classes     map[string]int `json:"classes"`
	Excluded    map[string]int `json:"excluded_by_known_finding"`
	Samples     []any          `json:"samples"`
	Violations  []ViolationRec `json:"violations"`
	Known       []KnownRec     `json:"known_findings_replayed"`
	Extra       map[string]any `json:"extra"`
	Assumptions []string       `json:"assumptions"`
	Exhaustive  bool           `json:"exhaustive,omitempty"`
	Infra       string         `json:"infra,omitempty"` // non-empty: could not decide (exit 2)
	Done        bool           `json:"done"`
}

type Ctx struct {
	T      *testing.T
	ID     string
	Tier   string
	Seed   int
	Shard  int
	Shards int
	OutDir string
	Replay string // path of a replay file to evaluate instead of searching

	start    time.Time
	mu       sync.Mutex
	p        Partial
	nt       map[string]struct{}
	vkeys    map[string]bool
	findings []Finding
	sampleN  int
	survey   map[string]string
	avoidAll map[string]bool
}

// Survey reports development mode: failures are tallied instead of stopping
// the search (VERIF_SURVEY=1); never used by registered commands.
func (c *Ctx) Survey() bool { return os.Getenv("VERIF_SURVEY") != "" }

// SurveyReplay keeps the smallest replay seen per signature under
// $VERIF_OUT/survey (development aid).
func (c *Ctx) SurveyReplay(key string, r *Replay) {
	r.Property = c.ID
	b, _ := json.MarshalIndent(r, "", " ")
	dir := filepath.Join(c.OutDir, "survey")
	_ = os.MkdirAll(dir, 0o755)
	path := filepath.Join(dir, c.ID+"-"+Hash(key)[:8]+".json")
	if st, err := os.Stat(path); err == nil && st.Size() <= int64(len(b)) {
		return
	}
	_ = os.WriteFile(path, b, 0o644)
}

// SurveyAdd tallies a failure signature with one example.
func (c *Ctx) SurveyAdd(key, example string) {
	c.mu.Lock()
	defer c.mu.Unlock()
	if c.survey == nil {
		c.survey = map[string]string{}
	}
	c.p.Classes["survey."+key]++
	if _, ok := c.survey[key]; !ok {
		c.survey[key] = example
	}
}

func envInt(k string, d int) int {
	if v := os.Getenv(k); v != "" {
		if i, err := strconv.Atoi(v); err == nil {
			return i
		}
	}
	return d
}

// New builds the context from the environment the driver sets.
func New(t *testing.T, id string) *Ctx {
	c := &Ctx{
		T: t, ID: id,
		Tier:   os.Getenv("VERIF_TIER"),
		Seed:   envInt("VERIF_SEED", 1),
		Shard:  envInt("VERIF_SHARD", 0),
		Shards: envInt("VERIF_SHARDS", 1),
		OutDir: os.Getenv("VERIF_OUT"),
		Replay: os.Getenv("VERIF_REPLAY"),
		start:  time.Now(),
		nt:     map[string]struct{}{},
		vkeys:  map[string]bool{},
	}
	if c.Tier == "" {
		c.Tier = "quick"
	}
	if c.OutDir == "" {
		c.OutDir = filepath.Join(os.TempDir(), "verif-out")
	}
	_ = os.MkdirAll(c.OutDir, 0o755)
	c.p = Partial{Property: id, Tier: c.Tier, Seed: c.Seed, Shard: c.Shard,
		Classes: map[string]int{}, Excluded: map[string]int{}, Extra: map[string]any{}}
	c.loadFindings()
	return c
}

func (c *Ctx) loadFindings() {
	b, err := os.ReadFile(filepath.Join(VerifDir, "known_findings.json"))
	if err != nil {
		return
	}
	var all struct {
		Findings []Finding `json:"findings"`
	}
	if err := json.Unmarshal(b, &all); err != nil {
		c.Infra("known_findings.json: " + err.Error())
		return
	}
	for _, f := range all.Findings {
		if f.Property == c.ID {
			c.findings = append(c.findings, f)
		}
		if f.Status == "open" {
			// exclusion switches are global: a defect found under one property
			// keeps the shared generators of every check out of its region
			for _, a := range f.Avoid {
				if c.avoidAll == nil {
					c.avoidAll = map[string]bool{}
				}
				c.avoidAll[a] = true
			}
		}
	}
}

// Findings returns this property's known-finding entries.
func (c *Ctx) Findings() []Finding { return c.findings }

// Avoid reports whether an open known finding switches a generator region off.
func (c *Ctx) Avoid(sw string) bool {
	if os.Getenv("VERIF_NO_AVOID") != "" {
		return false
	}
	if dev := os.Getenv("VERIF_AVOID"); dev != "" { // development aid only
		for _, a := range strings.Split(dev, ",") {
			if a == sw || a == "all" {
				return true
			}
		}
	}
	return c.avoidAll[sw]
}

func (c *Ctx) Thorough() bool { return c.Tier == "thorough" }

// N picks the per-shard case count for the tier.
func (c *Ctx) N(quick, thorough int) int {
	n := quick
	if c.Thorough() {
		n = thorough
	}
	if s := os.Getenv("VERIF_SCALE"); s != "" {
		if f, err := strconv.ParseFloat(s, 64); err == nil {
			n = int(float64(n) * f)
		}
	}
	n = n / c.Shards
	if n < 1 {
		n = 1
	}
	return n
}

// RapidSeed maps VERIF_SEED and the shard to a non-zero rapid seed.
func (c *Ctx) RapidSeed(salt int) uint64 {
	return uint64(c.Seed)*1000003 + uint64(c.Shard)*7919 + uint64(salt)*104729 + 1
}

func (c *Ctx) Count(class string) {
	c.mu.Lock()
	c.p.Classes[class]++
	c.mu.Unlock()
}

func (c *Ctx) CountN(class string, n int) {
	c.mu.Lock()
	c.p.Classes[class] += n
	c.mu.Unlock()
}

func (c *Ctx) Eval(n int) {
	c.mu.Lock()
	c.p.Evaluations += n
	c.mu.Unlock()
}

func (c *Ctx) Program(n int) {
	c.mu.Lock()
	c.p.Programs += n
	c.mu.Unlock()
}

func Hash(parts ...string) string {
	h := sha256.New()
	for _, p := range parts {
		h.Write([]byte(p))
		h.Write([]byte{0})
	}
	return hex.EncodeToString(h.Sum(nil))[:20]
}

// NonTrivial records one distinct non-trivial case.
func (c *Ctx) NonTrivial(parts ...string) {
	h := Hash(parts...)
	c.mu.Lock()
	c.nt[h] = struct{}{}
	c.mu.Unlock()
}

// Sample keeps a bounded number of written-out cases.
func (c *Ctx) Sample(v any) {
	c.mu.Lock()
	defer c.mu.Unlock()
	c.sampleN++
	if len(c.p.Samples) < 4 || (c.sampleN%97 == 0 && len(c.p.Samples) < 10) {
		c.p.Samples = append(c.p.Samples, v)
	}
}

func (c *Ctx) Rule(s string)               { c.p.Rule = s }
func (c *Ctx) Assume(s ...string)          { c.p.Assumptions = append(c.p.Assumptions, s...) }
func (c *Ctx) Extra(k string, v any)       { c.mu.Lock(); c.p.Extra[k] = v; c.mu.Unlock() }
func (c *Ctx) Exhaustive(b bool)           { c.p.Exhaustive = b }
func (c *Ctx) ExcludedMap() map[string]int { return c.p.Excluded }

// Infra marks the run as unable to decide (driver exit 2).
func (c *Ctx) Infra(msg string) {
	c.mu.Lock()
	if c.p.Infra == "" {
		c.p.Infra = msg
	}
	c.mu.Unlock()
	c.T.Logf("INFRA: %s", msg)
}

func (c *Ctx) ReplayDir() string {
	d := filepath.Join(VerifDir, "evidence", "replay", c.ID)
	if o := os.Getenv("VERIF_REPLAY_OUT"); o != "" {
		d = filepath.Join(o, c.ID)
	}
	return d
}

// Violation records one distinct failure and writes its replay file.
func (c *Ctx) Violation(key, what string, r *Replay) {
	c.mu.Lock()
	defer c.mu.Unlock()
	if c.vkeys[key] || len(c.p.Violations) >= 8 {
		return
	}
	c.vkeys[key] = true
	r.Property = c.ID
	r.Seed = c.Seed
	if r.Observed == "" {
		r.Observed = what
	}
	dir := c.ReplayDir()
	_ = os.MkdirAll(dir, 0o755)
	b, _ := json.MarshalIndent(r, "", " ")
	path := filepath.Join(dir, fmt.Sprintf("%s-%s-%s.json", c.ID, r.Check, Hash(string(b))[:10]))
	_ = os.WriteFile(path, b, 0o644)
	c.p.Violations = append(c.p.Violations, ViolationRec{Key: key, What: what, Replay: path})
	c.T.Logf("VIOLATION %s: %s -> %s", c.ID, what, path)
}

func (c *Ctx) NumViolations() int {
	c.mu.Lock()
	defer c.mu.Unlock()
	return len(c.p.Violations)
}

// LoadReplay reads a replay file (path relative to /verif allowed).
func LoadReplay(path string) (*Replay, error) {
	if !filepath.IsAbs(path) {
		if _, err := os.Stat(path); err != nil {
			path = filepath.Join(VerifDir, path)
		}
	}
	b, err := os.ReadFile(path)
	if err != nil {
		return nil, err
	}
	var r Replay
	if err := json.Unmarshal(b, &r); err != nil {
		return nil, err
	}
	return &r, nil
}

// EvalFn evaluates one replay case against the current tree; failed=true means
// the property is violated by it.
type EvalFn func(r *Replay) (failed bool, observed string, err error)

// Regressions replays known-finding witnesses and committed regression
// replays. An open finding that still fails is reported as KNOWN-FINDING; a
// fixed finding or a regression replay that fails is a violation.
func (c *Ctx) Regressions(eval EvalFn) {
	if c.Shard != 0 {
		return
	}
	for _, f := range c.findings {
		if f.Witness == "" {
			continue
		}
		r, err := LoadReplay(f.Witness)
		if err != nil {
			c.Infra("witness " + f.Witness + ": " + err.Error())
			continue
		}
		failed, obs, err := eval(r)
		if err != nil {
			c.Infra("witness " + f.Witness + ": " + err.Error())
			continue
		}
		c.Eval(1)
		switch f.Status {
		case "open":
			c.p.Known = append(c.p.Known, KnownRec{ID: f.ID, What: f.What, StillFails: failed, Detail: clip(obs, 300)})
		default:
			if failed {
				rr := *r
				rr.Note = "regression of fixed finding " + f.ID
				rr.Observed = obs
				c.Violation("fixed:"+f.ID, "fixed finding "+f.ID+" fails again: "+clip(obs, 200), &rr)
			}
		}
	}
	files, _ := filepath.Glob(filepath.Join(VerifDir, "replays", c.ID, "*.json"))
	sort.Strings(files)
	for _, p := range files {
		r, err := LoadReplay(p)
		if err != nil {
			c.Infra("replay " + p + ": " + err.Error())
			continue
		}
		failed, obs, err := eval(r)
		if err != nil {
			c.Infra("replay " + p + ": " + err.Error())
			continue
		}
		c.Eval(1)
		c.Count("regression_replays")
		if failed {
			rr := *r
			rr.Observed = obs
			c.Violation("replay:"+filepath.Base(p), "regression replay "+filepath.Base(p)+" fails: "+clip(obs, 200), &rr)
		}
	}
}

// ReplayIsFor reports whether the replay file named by VERIF_REPLAY (if any)
// belongs to one of the given sub-checks; a part of a multi-part check that is
// not addressed finishes empty.
func (c *Ctx) ReplayIsFor(checks ...string) bool {
	if c.Replay == "" {
		return true
	}
	r, err := LoadReplay(c.Replay)
	if err != nil {
		return true
	}
	for _, k := range checks {
		if r.Check == k {
			return true
		}
	}
	return false
}

// RunReplay evaluates the file named by VERIF_REPLAY; returns true when the
// test should stop afterwards.
func (c *Ctx) RunReplay(eval EvalFn) bool {
	if c.Replay == "" {
		return false
	}
	r, err := LoadReplay(c.Replay)
	if err != nil {
		c.Infra("replay: " + err.Error())
		c.Finish()
		return true
	}
	failed, obs, err := eval(r)
	if err != nil {
		c.Infra("replay: " + err.Error())
	} else if failed {
		c.mu.Lock()
		c.p.Violations = append(c.p.Violations, ViolationRec{Key: "replay", What: obs, Replay: c.Replay})
		c.mu.Unlock()
	}
	c.Eval(1)
	c.Finish()
	return true
}

func clip(s string, n int) string {
	if len(s) > n {
		return s[:n] + "…"
	}
	return s
}

func Clip(s string, n int) string { return clip(s, n) }

// Finish writes the partial evidence for the driver.
func (c *Ctx) Finish() {
	c.mu.Lock()
	defer c.mu.Unlock()
	if len(c.survey) > 0 {
		keys := make([]string, 0, len(c.survey))
		for k := range c.survey {
			keys = append(keys, k)
		}
		sort.Strings(keys)
		for _, k := range keys {
			c.T.Logf("SURVEY %d x %s\n%s\n", c.p.Classes["survey."+k], k, c.survey[k])
		}
	}
	c.p.WallS = time.Since(c.start).Seconds()
	c.p.Nontrivial = make([]string, 0, len(c.nt))
	for h := range c.nt {
		c.p.Nontrivial = append(c.p.Nontrivial, h)
	}
	sort.Strings(c.p.Nontrivial)
	c.p.Done = true
	b, _ := json.MarshalIndent(&c.p, "", " ")
	path := filepath.Join(c.OutDir, fmt.Sprintf("%s.%d.partial.json", c.ID, c.Shard))
	if err := os.WriteFile(path, b, 0o644); err != nil {
		c.T.Fatalf("cannot write partial evidence: %v", err)
	}
}

// ---------------------------------------------------------------------------
// rapid runner

type tbShim struct {
	name   string
	mu     sync.Mutex
	failed bool
	msgs   []string
	logs   []string
}

func (s *tbShim) Helper()      {}
func (s *tbShim) Name() string { return s.name }
func (s *tbShim) Logf(f string, a ...any) {
	s.mu.Lock()
	if len(s.logs) < 200 {
		s.logs = append(s.logs, fmt.Sprintf(f, a...))
	}
	s.mu.Unlock()
}
func (s *tbShim) Log(a ...any)              { s.Logf("%s", fmt.Sprint(a...)) }
func (s *tbShim) Skipf(f string, a ...any)  { panic("skip outside property") }
func (s *tbShim) Skip(a ...any)             { panic("skip outside property") }
func (s *tbShim) SkipNow()                  { panic("skip outside property") }
func (s *tbShim) Errorf(f string, a ...any) { s.fail(fmt.Sprintf(f, a...)) }
func (s *tbShim) Error(a ...any)            { s.fail(fmt.Sprint(a...)) }
func (s *tbShim) Fatalf(f string, a ...any) { s.fail(fmt.Sprintf(f, a...)) }
func (s *tbShim) Fatal(a ...any)            { s.fail(fmt.Sprint(a...)) }
func (s *tbShim) FailNow()                  { s.fail("FailNow") }
func (s *tbShim) Fail()                     { s.fail("Fail") }
func (s *tbShim) Failed() bool              { s.mu.Lock(); defer s.mu.Unlock(); return s.failed }
func (s *tbShim) fail(m string) {
	s.mu.Lock()
	s.failed = true
	s.msgs = append(s.msgs, m)
	s.mu.Unlock()
}

var rapidMu sync.Mutex

// RapidResult is the outcome of one rapid.Check run.
type RapidResult struct {
	Failed bool
	Msg    string
	Passed int
}

// Rapid runs rapid.Check with a fixed seed and case count through a TB shim so
// that a falsified property becomes data (violation + replay) instead of a
// failed Go test; rapid's shrinker runs as usual and the last invocation of
// prop is the minimal case.
func (c *Ctx) Rapid(name string, checks int, salt int, prop func(*rapid.T)) RapidResult {
	if only := os.Getenv("VERIF_ONLY_RUN"); only != "" && !strings.HasPrefix(name, only) {
		// development aid: restrict a check to one of its generator families
		return RapidResult{}
	}
	rapidMu.Lock()
	defer rapidMu.Unlock()
	mustSet("rapid.checks", strconv.Itoa(checks))
	mustSet("rapid.seed", strconv.FormatUint(c.RapidSeed(salt), 10))
	mustSet("rapid.nofailfile", "true")
	st := "30s"
	if c.Thorough() {
		st = "120s"
	}
	mustSet("rapid.shrinktime", st)
	shim := &tbShim{name: fmt.Sprintf("verif-%s-%s-%d-%d", c.ID, name, c.Seed, c.Shard)}
	func() {
		defer func() {
			if r := recover(); r != nil {
				shim.fail(fmt.Sprintf("rapid.Check panicked: %v", r))
			}
		}()
		rapid.Check(shim, prop)
	}()
	res := RapidResult{Failed: shim.Failed()}
	res.Msg = strings.Join(shim.msgs, "\n")
	for _, l := range shim.logs {
		if strings.Contains(l, "OK, passed") {
			fmt.Sscanf(l[strings.Index(l, "passed")+7:], "%d", &res.Passed)
		}
	}
	return res
}

func mustSet(name, val string) {
	if err := flagSet(name, val); err != nil {
		panic(err)
	}
}
