package batch

import (
	"os"
	"testing"
)

// TestPrime fills the build cache named by VERIF_PRIME_CACHE (driver: setup).
func TestPrime(t *testing.T) {
	dir := os.Getenv("VERIF_PRIME_CACHE")
	if dir == "" {
		t.Skip("VERIF_PRIME_CACHE not set")
	}
	if err := os.MkdirAll(dir, 0o755); err != nil {
		t.Fatal(err)
	}
	if err := Prime(dir); err != nil {
		t.Fatal(err)
	}
}
