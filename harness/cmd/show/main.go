// Command show is a development aid: it runs the generator in-process on the
// case of a replay file (or on schema files given with -f) and prints the
// emitted sources with line numbers.
package main

import (
	"encoding/json"
	"flag"
	"fmt"
	"os"
	"path/filepath"
	"strings"

	"verif/harness/core"
	"verif/harness/gen"
)

func main() {
	lines := flag.String("lines", "", "from-to line range to print")
	cfgJSON := flag.String("cfg", "", "config JSON when schema files are given directly")
	flag.Parse()
	var cs *gen.Case
	arg := flag.Arg(0)
	if strings.HasSuffix(arg, ".json") && *cfgJSON == "" {
		r, err := core.LoadReplay(arg)
		if err == nil && (r.Case != nil || len(r.Cases) > 0) {
			cs = r.Case
			if cs == nil {
				cs = r.Cases[0]
			}
		}
	}
	if cs == nil {
		cs = &gen.Case{Config: gen.Config{DefaultPackage: "verifpkg", DefaultOutput: "-"}}
		if *cfgJSON != "" {
			if err := json.Unmarshal([]byte(*cfgJSON), &cs.Config); err != nil {
				panic(err)
			}
		}
		for _, a := range flag.Args() {
			b, err := os.ReadFile(a)
			if err != nil {
				panic(err)
			}
			cs.Files = append(cs.Files, gen.FileText{RelPath: filepath.Base(a), Text: string(b)})
			cs.Inputs = append(cs.Inputs, filepath.Base(a))
		}
	}
	res := gen.Run(cs)
	fmt.Println("args:", strings.Join(append(cs.Config.Args(), cs.Inputs...), " "))
	fmt.Println("err:", res.Err, "panic:", res.Panic)
	for _, w := range res.Warnings {
		fmt.Println("warning:", w)
	}
	from, to := 0, 1<<30
	if *lines != "" {
		fmt.Sscanf(*lines, "%d-%d", &from, &to)
	}
	for _, n := range res.SortedNames() {
		fmt.Println("=====", n)
		for i, l := range strings.Split(res.Sources[n], "\n") {
			if i+1 >= from && i+1 <= to {
				fmt.Printf("%4d  %s\n", i+1, l)
			}
		}
	}
}
