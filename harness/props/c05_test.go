package props

import (
	"fmt"
	"testing"

	"pgregory.net/rapid"

	"verif/harness/core"
	"verif/harness/docs"
	"verif/harness/jv"
	"verif/harness/model"
	"verif/harness/sgen"
)

func numericProfile(c *core.Ctx) *sgen.Profile {
	return &sgen.Profile{
		MaxDepth: 2, MinProps: 3, MaxProps: 7, MinDefs: 1, MaxDefs: 3, ArrayDepth: 1,
		WInteger: 8, WNumber: 8, WRef: 6, WArray: 2, WObject: 1, WString: 1,
		DefWeights:  map[string]int{"integer": 4, "number": 4, "object": 1},
		PConstraint: 0.6, PNullable: 0.3, PRequired: 0.5,
		NumericGrid: true, FractionalIntBounds: true,
		Avoid: c.Avoid, Excluded: c.ExcludedMap(), Sat: docs.Satisfiable,
	}
}

func ntPos(m *docs.Mutant) bool {
	return m.Pos.ViaRef || m.Pos.InArray > 0 || (m.Pos.Orig != nil && m.Pos.Orig.Nullable) || (m.Pos.Parent != nil && !m.Pos.Parent.IsRequired(m.Pos.Key))
}

func TestC05(t *testing.T) {
	c := core.New(t, "C05")
	defer c.Finish()
	if !c.ReplayIsFor("run") {
		return
	}
	c.Rule("generated code: programs from the numeric profile (integer/number x required/optional/nullable/named definition referenced from properties and array items x minimum/maximum/exclusive* in boolean and numeric form x multipleOf, constants from a small grid so that ties are frequent); per program valid documents with values on the accepted side of every bound and single-fault mutants: every probe value on, next to and between the stated constants that the reference interval rejects; non-trivial = probe within one step of a stated bound at an optional/nullable/named position, or a valid document; distinct by sha256(schema,args,document)")
	c.Assume("R1 integer notation", "R2 representable numbers, dyadic multipleOf steps", "R3 null only where the schema names it", "reference oracle section 1.4")
	eval := runReplayEval(stdJudge)
	if c.RunReplay(eval) {
		return
	}
	c.Regressions(func(r *core.Replay) (bool, string, error) {
		if r.Check != "run" {
			return false, "", nil
		}
		return eval(r)
	})
	prof := numericProfile(c)
	o := docOpts(c)
	plan := &docPlan{NValid: 4, Kinds: map[string]bool{"numeric": true}, NTMutant: ntPos, NTValid: func(v jv.V) bool { return true }}
	runProperty(c, "run", c.N(240, 6000), 0, func(rt *rapid.T) *RunCase {
		f := prof.File(rt, "prog.json")
		if rapid.IntRange(0, 3).Draw(rt, "collidingdefs") == 0 {
			addCollidingDefs(rt, c, f, "numeric")
		}
		addOptionalDefaults(rt, c, f, 0.25, o)
		f.Schema = rapid.SampledFrom(schemaURIs).Draw(rt, "schemauri")
		cfg := baseConfig()
		if rapid.IntRange(0, 2).Draw(rt, "minsized") == 0 {
			// the sized type may drop the bound it implies, never the other one
			cfg.MinSizedInts = true
			if hasIntegerEnum(f) && c.Avoid("enums.typed_integer_min_sized") {
				c.ExcludedMap()["enums.typed_integer_min_sized"]++
				stripIntegerEnums(f)
			}
			if c.Avoid("minsized.uint8_array_items") {
				widenIntegerItems(c, f)
			}
			addTypeLimitBounds(rt, c, f)
		}
		cs := caseOf(cfg, []string{f.RelPath}, f)
		countShapes(c, f, cs.Config)
		jobs := buildJobs(rt, c, f.Root, progRoot, plan, o, cs)
		c.Sample(sampleOf(cs, jobs))
		countNumericShapes(c, f)
		return &RunCase{Case: cs, Jobs: jobs, Model: modelIfSingle(cs, f)}
	}, stdJudge)
}

// addTypeLimitBounds: integer properties with one bound exactly on a limit of a
// sized type and the other bound strictly inside it, in the inclusive, the
// numeric-exclusive and the boolean-exclusive form.
func addTypeLimitBounds(t *rapid.T, c *core.Ctx, f *model.File) {
	if f.Root.Kind != model.KObject {
		return
	}
	fp := func(v float64) *float64 { return &v }
	n := rapid.IntRange(1, 3).Draw(t, "ntypelimit")
	for i := 0; i < n; i++ {
		lim := rapid.SampledFrom([][2]float64{{0, 255}, {-128, 127}, {0, 65535}, {-32768, 32767}, {0, 4294967295}, {-2147483648, 2147483647}}).Draw(t, "typelimit")
		span := lim[1] - lim[0]
		inner := lim[0] + float64(rapid.IntRange(1, 90).Draw(t, "innerpct"))*span/100
		inner = float64(int64(inner))
		node := &model.Node{Kind: model.KInteger}
		onLimitIsMin := rapid.Bool().Draw(t, "limitmin")
		form := rapid.IntRange(0, 2).Draw(t, "innerform")
		if onLimitIsMin {
			node.Minimum = fp(lim[0])
			switch form {
			case 0:
				node.Maximum = fp(inner)
			case 1:
				node.ExclMax = &model.Excl{N: inner}
			default:
				node.Maximum, node.ExclMax = fp(inner), &model.Excl{IsBool: true, B: true}
			}
		} else {
			node.Maximum = fp(lim[1])
			switch form {
			case 0:
				node.Minimum = fp(inner)
			case 1:
				node.ExclMin = &model.Excl{N: inner}
			default:
				node.Minimum, node.ExclMin = fp(inner), &model.Excl{IsBool: true, B: true}
			}
		}
		name := fmt.Sprintf("zlimit%d", i)
		f.Root.Props = append(f.Root.Props, model.Prop{Name: name, Node: node})
		if rapid.Bool().Draw(t, "limitreq") {
			f.Root.Required = append(f.Root.Required, name)
		}
		c.Count(fmt.Sprintf("shape.bound_on_type_limit.form%d", form))
	}
}

func countNumericShapes(c *core.Ctx, f *model.File) {
	visit := func(n *model.Node) {
		if n.Kind != model.KInteger && n.Kind != model.KNumber {
			return
		}
		k := "shape." + n.Kind.String() + "."
		if n.Minimum != nil {
			k += "m"
		}
		if n.Maximum != nil {
			k += "M"
		}
		if n.ExclMin != nil {
			if n.ExclMin.IsBool {
				k += "eb"
			} else {
				k += "en"
				if n.Minimum != nil && *n.Minimum == n.ExclMin.N {
					c.Count("shape.tie")
				}
			}
		}
		if n.ExclMax != nil {
			if n.ExclMax.IsBool {
				k += "Eb"
			} else {
				k += "En"
				if n.Maximum != nil && *n.Maximum == n.ExclMax.N {
					c.Count("shape.tie")
				}
			}
		}
		if n.MultipleOf != nil {
			k += "x"
		}
		c.Count(k)
	}
	model.Walk(f.Root, visit)
	for _, d := range f.Defs {
		model.Walk(d.Node, visit)
	}
}
