package props

import (
	"fmt"
	"path"
	"sort"

	"pgregory.net/rapid"

	"verif/harness/core"
	"verif/harness/docs"
	"verif/harness/gen"
	"verif/harness/model"
	"verif/harness/sgen"
)

// multiCase is a run over several schema files with mappings.
type multiCase struct {
	files  []*model.File
	cfg    gen.Config
	inputs []string
	// per file: expected package import path and output name ("" = no output)
	pkgOf    map[string]string
	outOf    map[string]string
	rootOf   map[string]string // mapped root type ("" = derived)
	crossRef int
	mapped   int
}

func (m *multiCase) toCase() *gen.Case {
	return caseOf(m.cfg, m.inputs, m.files...)
}

type multiOpts struct {
	maxFiles      int
	allowNoID     bool
	allowDupID    bool
	bigMaps       bool // 6-12 entries in ordering-relevant maps (C12)
	noMappings    bool
	yamlFiles     bool
	hostileText   bool
	sameDir       bool // all files in one directory (argument spelling == $ref spelling)
	uniqueDefs    bool // definition names unique across files
	blockPkgs     bool // packages assigned in contiguous blocks (no import cycles)
	sharedRefText bool // every file gets its own definition "Base" used in an allOf through the identical text #/$defs/Base
}

var pkgPool = []string{"example.com/gen/pkga", "example.com/gen/pkgb", "example.com/other/pkga", "example.com/gen/sub/pkgc", "example.com/pkgd"}
var idPool = []string{"https://example.com/a", "https://example.com/a/b", "https://example.com/a/b/c", "https://example.com/ab", "https://example.com/b", "urn:x:one", "https://example.com/a.json"}

// genMulti draws 1..maxFiles schema files with a DAG of cross-file references
// (file i may refer to files j > i), ids, a directory layout and mappings.
func genMulti(t *rapid.T, c *core.Ctx, mo multiOpts) *multiCase {
	nf := rapid.IntRange(1, mo.maxFiles).Draw(t, "nfiles")
	prof := &sgen.Profile{
		MaxDepth: 2, MinProps: 2, MaxProps: 5, MaxDefs: 3, ArrayDepth: 2,
		WString: 4, WInteger: 3, WNumber: 2, WBoolean: 2, WObject: 3, WArray: 2, WEnum: 3, WRef: 3, WAllOf: 1, WAnyOf: 1, WMap: 1,
		PConstraint: 0.4, PNullable: 0.15, PRequired: 0.4, PFormat: 0.1, PDesc: 0.2, PAdditional: 0.1, MixedEnums: true,
		HostileText: mo.hostileText, Avoid: c.Avoid, Excluded: c.ExcludedMap(), Sat: docs.Satisfiable,
	}
	if mo.bigMaps {
		prof.MinProps, prof.MaxProps, prof.MaxDefs, prof.MinDefs = 6, 14, 8, 4
	}
	m := &multiCase{pkgOf: map[string]string{}, outOf: map[string]string{}, rootOf: map[string]string{}}
	ids := rapid.Permutation(idPool).Draw(t, "ids")
	dirs := []string{"", "schemas", "schemas/sub", "other"}
	for i := 0; i < nf; i++ {
		dir := rapid.SampledFrom(dirs).Draw(t, "dir")
		if mo.sameDir {
			dir = ""
		}
		name := fmt.Sprintf("file%c", 'a'+i)
		ext := ".json"
		format := model.JSON
		if mo.yamlFiles && rapid.IntRange(0, 4).Draw(t, "yaml") == 0 {
			ext, format = ".yaml", model.YAML
		}
		f := prof.File(t, path.Join(dir, name+ext))
		f.Format = format
		f.ID = ids[i]
		if mo.allowNoID && rapid.IntRange(0, 5).Draw(t, "noid") == 0 {
			f.NoID = true
			f.ID = ""
		} else if mo.allowDupID && i > 0 && rapid.IntRange(0, 6).Draw(t, "dupid") == 0 {
			f.ID = m.files[i-1].ID
			f.NoID = m.files[i-1].NoID
		}
		f.Spelling.LegacyID = rapid.IntRange(0, 3).Draw(t, "legacyid") == 0
		f.Schema = rapid.SampledFrom(schemaURIs).Draw(t, "schemauri")
		if mo.uniqueDefs {
			ren := map[string]string{}
			for k := range f.Defs {
				nn := fmt.Sprintf("F%c%s", 'a'+i, f.Defs[k].Name)
				ren["#/$defs/"+f.Defs[k].Name] = "#/$defs/" + nn
				f.Defs[k].Name = nn
			}
			fix := func(n *model.Node) {
				if n.Kind == model.KRef {
					if nr, ok := ren[n.Ref]; ok {
						n.Ref = nr
					}
				}
			}
			model.Walk(f.Root, fix)
			for _, d := range f.Defs {
				model.Walk(d.Node, fix)
			}
		}
		if mo.sharedRefText {
			kinds := []model.Kind{model.KString, model.KInteger, model.KBoolean, model.KNumber}
			base := &model.Node{Kind: model.KObject, Props: []model.Prop{{Name: fmt.Sprintf("own%c", 'a'+i), Node: &model.Node{Kind: kinds[i%len(kinds)]}}, {Name: "shared", Node: &model.Node{Kind: kinds[(i+1)%len(kinds)]}}}, Required: []string{"shared"}}
			f.Defs = append(f.Defs, model.Def{Name: "Base", Node: base})
			comp := &model.Node{Kind: model.KAllOf, Branches: []*model.Node{{Kind: model.KRef, Ref: "#/$defs/Base", Target: base},
				{Kind: model.KObject, Props: []model.Prop{{Name: "extra", Node: &model.Node{Kind: model.KBoolean}}}}}}
			f.Root.Props = append(f.Root.Props, model.Prop{Name: "composed", Node: comp})
		}
		m.files = append(m.files, f)
	}
	// cross-file references: file i -> file j > i
	for i := 0; i < nf; i++ {
		for j := i + 1; j < nf; j++ {
			if rapid.IntRange(0, 9).Draw(t, "xref") >= 6 {
				continue
			}
			fi, fj := m.files[i], m.files[j]
			dirI := path.Dir(fi.RelPath)
			if dirI == "." {
				dirI = ""
			}
			ref := relPath(dirI, fj.RelPath)
			var target *model.Node
			if len(fj.Defs) > 0 && rapid.Bool().Draw(t, "xdef") {
				d := rapid.SampledFrom(fj.Defs).Draw(t, "xdefpick")
				ref += "#/$defs/" + d.Name
				target = d.Node
			} else {
				target = fj.Root
			}
			pname := fmt.Sprintf("x%c%c", 'a'+i, 'a'+j)
			fi.Root.Props = append(fi.Root.Props, model.Prop{Name: pname, Node: &model.Node{Kind: model.KRef, Ref: ref, Target: target}})
			if rapid.Bool().Draw(t, "xreq") {
				fi.Root.Required = append(fi.Root.Required, pname)
			}
			m.crossRef++
		}
	}
	m.cfg = gen.Config{DefaultPackage: "example.com/gen/defpkg", DefaultOutput: "out/defpkg/default.go"}
	if !mo.noMappings {
		seenID := map[string]bool{}
		pool := pkgPool
		if c.Avoid("packages.same_last_element") && nf > 2 {
			// known finding: a THIRD package importing two packages with the same last path element;
			// with two files there is no third importer and the pool stays complete
			c.ExcludedMap()["packages.same_last_element"]++
			pool = nil
			for _, p := range pkgPool {
				if p != "example.com/other/pkga" {
					pool = append(pool, p)
				}
			}
		}
		pkgOrder := rapid.Permutation(pool).Draw(t, "pkgorder")
		nextPkg, curPkg := 0, ""
		defaultBlock := 0 // 0 not used yet, 1 inside the block of unmapped files, 2 finished
		for i, f := range m.files {
			if f.ID == "" || seenID[f.ID] {
				continue
			}
			seenID[f.ID] = true
			if rapid.IntRange(0, 9).Draw(t, "map") >= 7 && !(mo.blockPkgs && defaultBlock == 2) {
				if mo.blockPkgs {
					defaultBlock, curPkg = 1, ""
					if mo.sharedRefText && c.Avoid("outputs.same_package_two_files_same_definition_name") {
						defaultBlock = 2 // at most one file in the default package/output... (they share one output anyway)
					}
				}
				continue
			}
			if mo.blockPkgs && defaultBlock == 1 {
				defaultBlock = 2
			}
			pkg := rapid.SampledFrom(pool).Draw(t, "pkg")
			if mo.blockPkgs {
				distinct := mo.sharedRefText && c.Avoid("outputs.same_package_two_files_same_definition_name")
				if distinct {
					c.ExcludedMap()["outputs.same_package_two_files_same_definition_name"]++
				}
				if curPkg == "" || distinct || rapid.Bool().Draw(t, "newpkg") {
					curPkg = pkgOrder[nextPkg%len(pkgOrder)]
					nextPkg++
				}
				pkg = curPkg
			}
			out := fmt.Sprintf("out/%s/gen_%c.go", pkg, 'a'+i)
			mp := gen.Mapping{ID: f.ID, Package: pkg, Output: out}
			// (two files that share an id would both get the mapped root type name)
			if rapid.IntRange(0, 3).Draw(t, "roottype") == 0 && !mo.allowDupID {
				mp.RootType = fmt.Sprintf("Root%c", 'A'+i)
			}
			m.cfg.Mappings = append(m.cfg.Mappings, mp)
			m.mapped++
		}
	}
	for _, f := range m.files {
		m.pkgOf[f.RelPath], m.outOf[f.RelPath] = m.cfg.DefaultPackage, m.cfg.DefaultOutput
		for _, mp := range m.cfg.Mappings {
			if mp.ID == f.ID && f.ID != "" {
				m.pkgOf[f.RelPath], m.outOf[f.RelPath], m.rootOf[f.RelPath] = mp.Package, mp.Output, mp.RootType
			}
		}
		m.inputs = append(m.inputs, f.RelPath)
	}
	return m
}

func sortedMapKeys(m map[string]string) []string {
	out := make([]string, 0, len(m))
	for k := range m {
		out = append(out, k)
	}
	sort.Strings(out)
	return out
}
