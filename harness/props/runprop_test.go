package props

import (
	"fmt"
	"strings"

	"pgregory.net/rapid"

	"verif/harness/batch"
	"verif/harness/core"
	"verif/harness/docs"
	"verif/harness/gen"
	"verif/harness/jv"
	"verif/harness/model"
)

const batchSize = 160

// runProperty is the two-phase driver of E-run checks: phase 1 generates cases
// with rapid (fixed seed), phase 2 batch-builds and runs them and judges every
// job against its expectation.
func runProperty(c *core.Ctx, check string, nProg, salt int, genCase func(*rapid.T) *RunCase, judge Judge) {
	var cases []*RunCase
	res := c.Rapid(check, nProg, salt, func(rt *rapid.T) {
		if rc := genCase(rt); rc != nil {
			cases = append(cases, rc)
		}
	})
	if res.Failed {
		c.Infra("case generation failed: " + core.Clip(res.Msg, 800))
		return
	}
	c.Extra("rapid_cases", len(cases))
	seenClass := map[string]bool{}
	var pending []pendingViolation
	batches := 0
	for lo := 0; lo < len(cases); lo += batchSize {
		hi := lo + batchSize
		if hi > len(cases) {
			hi = len(cases)
		}
		st, err := evalRunCases(c, cases[lo:hi], judge, func(rc *RunCase, j *core.Job, r *batch.Result, key, msg string) {
			if c.Survey() {
				c.SurveyAdd(keyClass(key), msg+"\n"+j.Doc)
				c.SurveyReplay(keyClass(key), &core.Replay{Check: check, Case: rc.Case, Jobs: []core.Job{*j}, Observed: msg})
				return
			}
			kc := keyClass(key)
			if seenClass[kc] {
				c.Count("violations.duplicate_class")
				return
			}
			seenClass[kc] = true
			jj := *j
			pending = append(pending, pendingViolation{rc, jj, kc, msg})
		})
		batches++
		if err != nil {
			c.Infra("batch: " + err.Error())
			return
		}
		c.Eval(st.jobs - st.skipped)
		c.Program(hi - lo - st.genErr - st.buildErr)
		if st.jobs > 20 && st.skipped*10 > st.jobs {
			c.Infra(fmt.Sprintf("too many skipped jobs (%d of %d): the harness does not find the generated types", st.skipped, st.jobs))
		}
	}
	c.Extra("batches", batches)
	// phase 2b: reduce (model level) and report
	budget := 30
	if c.Thorough() {
		budget = 120
	}
	total := 0
	for i, pv := range pending {
		rc, jj := pv.rc, pv.job
		note := ""
		if i < 3 {
			rr, rj, evals := reduceRunFailure(pv.rc, &pv.job, judge, pv.class, budget)
			total += evals
			if evals > 0 {
				note = fmt.Sprintf("reduced at model level with %d single-program evaluations from a %d-byte schema", evals, len(pv.rc.Case.Files[0].Text))
				rc, jj = rr, *rj
			}
		}
		c.Violation(pv.class, pv.msg, &core.Replay{Check: check, Case: rc.Case, Jobs: []core.Job{jj}, Expected: jj.Expect + " " + jj.Rule, Observed: pv.msg, Note: note})
	}
	c.Extra("reducer_evaluations", total)
}

type pendingViolation struct {
	rc    *RunCase
	job   core.Job
	class string
	msg   string
}

// docSet builds the jobs for one program: valid documents (accept, with
// expected value) and single-fault mutants of the selected kinds (reject).
type docPlan struct {
	NValid    int
	Kinds     map[string]bool
	Remarshal bool
	Ops       []string // decode ops, default json
	MaxMut    int
	// NT decides whether a job counts as non-trivial.
	NTValid  func(v jv.V) bool
	NTMutant func(m *docs.Mutant) bool
	// Keep filters mutants (nil = all)
	Keep func(m *docs.Mutant) bool
}

func buildJobs(t *rapid.T, c *core.Ctx, root *model.Node, typeName string, plan *docPlan, o *docs.Opts, cs *gen.Case) []core.Job {
	var jobs []core.Job
	ops := plan.Ops
	if len(ops) == 0 {
		ops = []string{"json"}
	}
	caseKey := cs.Files[0].Text + strings.Join(cs.Config.Args(), " ")
	var firstValid *jv.V
	for i := 0; i < plan.NValid; i++ {
		oo := *o
		switch i {
		case 0:
			oo.AllProps = true
		case 1:
			oo.NoProps = true
		}
		v, ok := docs.Valid(t, root, &oo)
		if !ok {
			c.Count("doc.no_valid")
			continue
		}
		if firstValid == nil && i == 0 {
			vv := v
			firstValid = &vv
		}
		e := docs.Expect(root, v)
		for _, op := range ops {
			jobs = append(jobs, core.Job{Type: typeName, Op: op, Doc: string(v.Marshal()), Expect: "accept", ExpectVal: expJSON(e), Label: "valid", Remarshal: plan.Remarshal})
		}
		c.Count("doc.valid")
		if plan.NTValid == nil || plan.NTValid(v) {
			c.NonTrivial(caseKey, string(v.Marshal()))
		}
		if len(plan.Kinds) > 0 {
			muts, disc := docs.Mutants(t, root, v, plan.Kinds, &oo)
			c.CountN("mutant.discarded_by_oracle", disc)
			n := 0
			for k := range muts {
				m := &muts[k]
				if plan.Keep != nil && !plan.Keep(m) {
					continue
				}
				if plan.MaxMut > 0 && n >= plan.MaxMut {
					break
				}
				n++
				lbl := m.Label
				if m.Pos.ViaRef {
					lbl += ",ref"
				}
				if m.Pos.InArray > 0 {
					lbl += fmt.Sprintf(",arr%d", m.Pos.InArray)
				}
				if m.Pos.InAddl {
					lbl += ",addl"
				}
				if m.Pos.InBranch {
					lbl += ",branch"
				}
				if m.Pos.Orig != nil && m.Pos.Orig.Nullable {
					lbl += ",nullable"
				}
				for _, op := range ops {
					jobs = append(jobs, core.Job{Type: typeName, Op: op, Doc: string(m.Doc.Marshal()), Expect: "reject", Rule: m.Rule() + "@" + m.Path, Label: lbl})
				}
				c.Count("doc.reject." + strings.SplitN(m.Label, "<-", 2)[0])
				if plan.NTMutant == nil || plan.NTMutant(m) {
					c.NonTrivial(caseKey, string(m.Doc.Marshal()))
				}
			}
		}
	}
	return jobs
}

// rootTypeName is the Go name the tool derives for prog.json's root.
const progRoot = "ProgJson"

func sampleOf(cs *gen.Case, jobs []core.Job) map[string]any {
	s := describeCase(cs)
	var js []map[string]string
	for i, j := range jobs {
		if i >= 4 {
			break
		}
		js = append(js, map[string]string{"doc": core.Clip(j.Doc, 300), "expect": j.Expect + " " + j.Rule, "label": j.Label})
	}
	s["jobs"] = js
	s["n_jobs"] = len(jobs)
	return s
}
