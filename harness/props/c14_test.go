package props

import (
	"fmt"
	"go/ast"
	"go/parser"
	"go/token"
	"reflect"
	"sort"
	"strings"
	"testing"
	"unicode"

	"pgregory.net/rapid"

	"verif/harness/batch"
	"verif/harness/core"
	"verif/harness/docs"
	"verif/harness/gen"
	"verif/harness/goast"
	"verif/harness/jv"
	"verif/harness/model"
)

type runeClass struct {
	name  string
	runes []rune
}

// the splitter is a state machine over these classes
var nameClasses = []runeClass{
	{"Ll", []rune{'a', 'é'}},
	{"Lu", []rune{'B', 'Ω'}},
	{"Lt", []rune{'ǅ'}},
	{"Lo", []rune{'日', 'ʰ'}},
	{"Nd", []rune{'1', '٣'}},
	{"NlNo", []rune{'Ⅷ', '²'}},
	{"sep", []rune{'-', '_', ' ', '.', '/'}},
	{"sym", []rune{'$', '+', '!', '@'}},
	{"Mn", []rune{'\u0301'}},
	{"emoji", []rune{'😀'}},
	{"tagbreak", []rune{'"', '\\', '`', '\n', ',', ':'}},
}

func classOfRune(r rune) string {
	for _, c := range nameClasses {
		for _, x := range c.runes {
			if x == r {
				return c.name
			}
		}
	}
	switch {
	case unicode.IsLower(r):
		return "Ll"
	case unicode.IsUpper(r):
		return "Lu"
	case unicode.IsLetter(r):
		return "Lo"
	case unicode.IsDigit(r):
		return "Nd"
	case unicode.IsNumber(r):
		return "NlNo"
	}
	return "sym"
}

// nameAllowed applies the known-finding exclusion switches about names.
func nameAllowed(c *core.Ctx, name string, asProperty bool) bool {
	if !asProperty {
		return true // definition names, titles and file names only feed identifiers
	}
	if (name == "" || name == "-") && c.Avoid("names.empty_or_dash") {
		c.ExcludedMap()["names.empty_or_dash"]++
		return false
	}
	for _, r := range name {
		switch {
		case strings.ContainsRune("\"\\`\n\r\x00\ufeff", r):
			if c.Avoid("names.tag_breaking_chars") {
				c.ExcludedMap()["names.tag_breaking_chars"]++
				return false
			}
		case r == ',':
			if c.Avoid("names.comma") {
				c.ExcludedMap()["names.comma"]++
				return false
			}
		case false && unicode.IsNumber(r):
			if c.Avoid("names.non_nd_numerals") {
				c.ExcludedMap()["names.non_nd_numerals"]++
				return false
			}
		case !jsonTagRuneOK(r):
			if c.Avoid("names.chars_invalid_in_json_tags") {
				c.ExcludedMap()["names.chars_invalid_in_json_tags"]++
				return false
			}
		}
	}
	return true
}

// jsonTagRuneOK mirrors encoding/json's isValidTag: a tag name with any other
// character is ignored by the decoder.
func jsonTagRuneOK(r rune) bool {
	if strings.ContainsRune("!#$%&()*+-./:;<=>?@[]^_{|}~ ", r) {
		return true
	}
	return unicode.IsLetter(r) || unicode.IsDigit(r)
}

// enumerateNames yields every class sequence up to maxLen with the i-th
// representative of each class.
func enumerateNames(maxLen int, rep int) []string {
	var out []string
	var rec func(prefix []rune, l int)
	rec = func(prefix []rune, l int) {
		if l > 0 {
			out = append(out, string(prefix))
		}
		if l == maxLen {
			return
		}
		for _, cl := range nameClasses {
			r := cl.runes[rep%len(cl.runes)]
			rec(append(append([]rune{}, prefix...), r), l+1)
		}
	}
	rec(nil, 0)
	return out
}

type nameCase struct {
	cs    *gen.Case
	file  *model.File
	names []string
	kind  string // nested | siblings | defs | title | filename
	doc   jv.V
	exp   *docs.Exp
}

// nestedNames: every name is the only property of its own nested object.
func nestedNamesCase(names []string, cfg gen.Config) *nameCase {
	root := &model.Node{Kind: model.KObject}
	doc := jv.ObjV()
	for i, nm := range names {
		inner := &model.Node{Kind: model.KObject, Props: []model.Prop{{Name: nm, Node: &model.Node{Kind: model.KString}}}}
		k := fmt.Sprintf("k%d", i)
		root.Props = append(root.Props, model.Prop{Name: k, Node: inner})
		doc.O = append(doc.O, jv.KV{K: k, V: jv.ObjV(jv.Field(nm, jv.StrV(fmt.Sprintf("v%d", i))))})
	}
	f := &model.File{RelPath: "prog.json", ID: "https://example.com/prog", Root: root}
	return &nameCase{cs: caseOf(cfg, []string{f.RelPath}, f), file: f, names: names, kind: "nested", doc: doc, exp: docs.Expect(root, doc)}
}

func siblingNamesCase(names []string, cfg gen.Config) *nameCase {
	root := &model.Node{Kind: model.KObject}
	doc := jv.ObjV()
	for i, nm := range names {
		root.Props = append(root.Props, model.Prop{Name: nm, Node: &model.Node{Kind: model.KString}})
		doc.O = append(doc.O, jv.KV{K: nm, V: jv.StrV(fmt.Sprintf("v%d", i))})
	}
	f := &model.File{RelPath: "prog.json", ID: "https://example.com/prog", Root: root}
	return &nameCase{cs: caseOf(cfg, []string{f.RelPath}, f), file: f, names: names, kind: "siblings", doc: doc, exp: docs.Expect(root, doc)}
}

// defNamesCase: every name is a definition (distinct object schemas) referenced
// from the root.
func defNamesCase(names []string, cfg gen.Config) *nameCase {
	if avoidEmptyDef != nil {
		var ok []string
		for _, n := range names {
			if n == "" && avoidEmptyDef() {
				continue
			}
			ok = append(ok, n)
		}
		names = ok
	}
	root := &model.Node{Kind: model.KObject}
	f := &model.File{RelPath: "prog.json", ID: "https://example.com/prog", Root: root}
	doc := jv.ObjV()
	for i, nm := range names {
		d := &model.Node{Kind: model.KObject, Props: []model.Prop{{Name: fmt.Sprintf("f%d", i), Node: &model.Node{Kind: model.KString}}}}
		f.Defs = append(f.Defs, model.Def{Name: nm, Node: d})
		k := fmt.Sprintf("k%d", i)
		root.Props = append(root.Props, model.Prop{Name: k, Node: &model.Node{Kind: model.KRef, Ref: "#/$defs/" + nm, Target: d}})
		doc.O = append(doc.O, jv.KV{K: k, V: jv.ObjV(jv.Field(fmt.Sprintf("f%d", i), jv.StrV(fmt.Sprintf("v%d", i))))})
	}
	return &nameCase{cs: caseOf(cfg, []string{f.RelPath}, f), file: f, names: names, kind: "defs", doc: doc, exp: docs.Expect(root, doc)}
}

var avoidEmptyDef func() bool
var avoidInProgressCollision func() bool

// chainedDefNamesCase: definitions whose names collide after normalisation and
// that refer to each other in a chain (def i has a property referring to def
// i+1), so that a colliding name is requested while another declaration of the
// same normalised name is still being generated.
func chainedDefNamesCase(names []string, cfg gen.Config) *nameCase {
	if avoidEmptyDef != nil {
		var ok []string
		for _, n := range names {
			if n == "" && avoidEmptyDef() {
				continue
			}
			ok = append(ok, n)
		}
		names = ok
	}
	tailOnly := avoidInProgressCollision != nil && avoidInProgressCollision()
	if tailOnly {
		// known finding: a colliding name requested while the unsuffixed declaration is still
		// being generated is handed out twice. Definitions are generated in sorted order, so
		// with the chain running along that order and the first definition left without a
		// reference, the unsuffixed name is complete before any collision is requested.
		names = append([]string{}, names...)
		sort.Strings(names)
	}
	if len(names) < 2 {
		return siblingNamesCase([]string{"solo"}, cfg)
	}
	root := &model.Node{Kind: model.KObject}
	f := &model.File{RelPath: "prog.json", ID: "https://example.com/prog", Root: root}
	nodes := make([]*model.Node, len(names))
	for i := range names {
		nodes[i] = &model.Node{Kind: model.KObject, Props: []model.Prop{{Name: fmt.Sprintf("f%d", i), Node: &model.Node{Kind: model.KString}}}}
	}
	// innermost first, so the expectation can be nested
	var doc jv.V
	for i := len(names) - 1; i >= 0; i-- {
		v := jv.ObjV(jv.Field(fmt.Sprintf("f%d", i), jv.StrV(fmt.Sprintf("v%d", i))))
		if i+1 < len(names) && !(tailOnly && i == 0) {
			nodes[i].Props = append(nodes[i].Props, model.Prop{Name: "next", Node: &model.Node{Kind: model.KRef, Ref: "#/$defs/" + names[i+1], Target: nodes[i+1]}})
			v.O = append(v.O, jv.KV{K: "next", V: doc})
		}
		doc = v
	}
	headIdx := 0
	if tailOnly {
		headIdx = 1
		// doc currently describes names[0] (no next); rebuild for names[1]
		doc = jv.V{}
		for i := len(names) - 1; i >= 1; i-- {
			v := jv.ObjV(jv.Field(fmt.Sprintf("f%d", i), jv.StrV(fmt.Sprintf("v%d", i))))
			if i+1 < len(names) {
				v.O = append(v.O, jv.KV{K: "next", V: doc})
			}
			doc = v
		}
	}
	for i, nm := range names {
		f.Defs = append(f.Defs, model.Def{Name: nm, Node: nodes[i]})
	}
	root.Props = append(root.Props, model.Prop{Name: "head", Node: &model.Node{Kind: model.KRef, Ref: "#/$defs/" + names[headIdx], Target: nodes[headIdx]}})
	full := jv.ObjV(jv.Field("head", doc))
	return &nameCase{cs: caseOf(cfg, []string{f.RelPath}, f), file: f, names: names, kind: "defs", doc: full, exp: docs.Expect(root, full)}
}

func titleCase(title string, cfg gen.Config) *nameCase {
	cfg.StructNameFromTitle = true
	root := &model.Node{Kind: model.KObject, Props: []model.Prop{{Name: "a", Node: &model.Node{Kind: model.KString}}}}
	f := &model.File{RelPath: "prog.json", ID: "https://example.com/prog", Root: root, Title: title}
	return &nameCase{cs: caseOf(cfg, []string{f.RelPath}, f), file: f, names: []string{title}, kind: "title"}
}

func fileNameCase(name string, cfg gen.Config) *nameCase {
	root := &model.Node{Kind: model.KObject, Props: []model.Prop{{Name: "a", Node: &model.Node{Kind: model.KString}}}}
	f := &model.File{RelPath: name + ".json", ID: "https://example.com/prog", Root: root}
	return &nameCase{cs: caseOf(cfg, []string{f.RelPath}, f), file: f, names: []string{name}, kind: "filename"}
}

// staticNameCheck judges the emitted source of a name case.
func staticNameCheck(nc *nameCase) (status string, problems []string, src string) {
	res := gen.Run(nc.cs)
	if res.Panic != "" {
		return "panic", nil, ""
	}
	if res.Err != "" {
		return "rejected", nil, ""
	}
	src = res.Sources["-"]
	fset := token.NewFileSet()
	af, err := parser.ParseFile(fset, "gen.go", src, parser.SkipObjectResolution)
	if err != nil {
		return "ok", []string{"emitted file does not parse (a name broke an identifier, tag or literal): " + err.Error()}, src
	}
	tags := nc.cs.Config.Tags
	if tags == nil {
		tags = []string{"json", "yaml", "mapstructure"}
	}
	typeNames := map[string]int{}
	// field tags per struct type
	tagNames := map[string][]string{} // json tag name -> go field names
	for _, d := range af.Decls {
		gd, ok := d.(*ast.GenDecl)
		if !ok || gd.Tok != token.TYPE {
			continue
		}
		for _, sp := range gd.Specs {
			ts := sp.(*ast.TypeSpec)
			typeNames[ts.Name.Name]++
			if !token.IsIdentifier(ts.Name.Name) || !ast.IsExported(ts.Name.Name) {
				problems = append(problems, fmt.Sprintf("type name %q is not a valid exported identifier", ts.Name.Name))
			}
			st, ok := ts.Type.(*ast.StructType)
			if !ok {
				continue
			}
			seenField := map[string]bool{}
			for _, fld := range st.Fields.List {
				for _, nm := range fld.Names {
					if !token.IsIdentifier(nm.Name) || !ast.IsExported(nm.Name) {
						problems = append(problems, fmt.Sprintf("field name %q is not a valid exported identifier", nm.Name))
					}
					if seenField[nm.Name] {
						problems = append(problems, fmt.Sprintf("duplicate field %q in %s", nm.Name, ts.Name.Name))
					}
					seenField[nm.Name] = true
					if fld.Tag == nil {
						continue
					}
					raw := strings.Trim(fld.Tag.Value, "`")
					var first string
					for ti, tg := range tags {
						v, ok := reflect.StructTag(raw).Lookup(tg)
						if !ok {
							problems = append(problems, fmt.Sprintf("field %s: tag %q missing or malformed in `%s`", nm.Name, tg, core.Clip(raw, 80)))
							continue
						}
						name := v
						if i := strings.IndexByte(v, ','); i >= 0 {
							name = v[:i]
						}
						if ti == 0 {
							first = name
							tagNames[name] = append(tagNames[name], ts.Name.Name+"."+nm.Name)
						} else if name != first {
							problems = append(problems, fmt.Sprintf("field %s: tags disagree on the name (%q vs %q)", nm.Name, first, name))
						}
					}
				}
			}
		}
	}
	for n, k := range typeNames {
		if k > 1 {
			problems = append(problems, fmt.Sprintf("type %s declared %d times", n, k))
		}
	}
	switch nc.kind {
	case "nested", "siblings":
		for _, nm := range nc.names {
			if len(tagNames[nm]) == 0 {
				problems = append(problems, fmt.Sprintf("no field carries the exact property name %q in its %s tag", nm, tags[0]))
			}
		}
	}
	if len(problems) == 0 {
		ps, _ := goast.CheckSingle("gen.go", src)
		for _, p := range ps {
			if p.Kind == "type" || p.Kind == "parse" {
				problems = append(problems, "emitted file does not type-check: "+p.Msg)
				break
			}
		}
	}
	sort.Strings(problems)
	return "ok", problems, src
}

var collisionSets = [][]string{
	{"foo_bar", "fooBar", "FooBar", "foo-bar", "foo bar"},
	{"foo_bar", "fooBar", "FooBar", "foo-bar", "foo bar", "foo.bar", "foo/bar", "Foo_Bar"},
	{"a", "A"},
	{"x1", "x_1", "x-1"},
	{"id", "ID", "Id", "iD"},
	{"url", "URL", "Url"},
	{"", " ", "-", "_"},
	{"*", "wildcard", "Wildcard"},
	{"1a", "A1a", "a1a"},
	{"é", "É", "e"},
	{"日本", "A日本"},
	{"foo", "foo_2", "Foo_2", "FOO"},
	{"AdditionalProperties", "additionalProperties"},
	{"a.b", "a/b", "a b", "aB"},
}

// collision sets whose members all normalise to one and the same identifier
var uniformSets = map[string]bool{
	"foo_bar|fooBar": true, // both FooBar sets start like this
	"x1|x_1":         true,
	"a.b|a/b":        true,
}

func TestC14(t *testing.T) {
	c := core.New(t, "C14")
	defer c.Finish()
	c.Rule("names as sequences over the character classes the splitter distinguishes (Ll, Lu, Lt, Lo/Lm, Nd, Nl/No, separators, symbols, combining marks, emoji, tag-breaking punctuation): every class sequence up to length 3 (quick) / 4 with two representatives (thorough) as a property name in its own nested object, as a definition name, as a title (--struct-name-from-title) and as a file name; sibling sets built to collide after normalisation; random capitalization lists and tag sets; oracle on the parsed output: every type and field name is a valid exported identifier, no duplicates, for each configured tag the name part is exactly the property name, the file type-checks; E-run: decoding {p_i: \"v_i\"} with a distinct value per key puts v_i in p_i's field; non-trivial = name containing a class other than ASCII letters, or a sibling set with a post-normalisation collision; distinct by sha256(kind,names,args)")
	c.Assume("root-type mappings are used verbatim by the tool (a non-identifier there is user error)", "file names cannot contain '/' or NUL")
	runEval := runReplayEval(stdJudge)
	eval := func(r *core.Replay) (bool, string, error) {
		if r.Check == "names-run" {
			return runEval(r)
		}
		nc := &nameCase{cs: r.Case, kind: r.Note}
		if strings.HasPrefix(r.Note, "nested:") || strings.HasPrefix(r.Note, "siblings:") {
			parts := strings.SplitN(r.Note, ":", 2)
			nc.kind = parts[0]
			var names []string
			if v, err := jv.Parse([]byte(parts[1])); err == nil {
				for _, e := range v.A {
					names = append(names, e.S)
				}
			}
			nc.names = names
		}
		st, probs, _ := staticNameCheck(nc)
		if st != "ok" {
			return false, "case no longer generates: " + st, nil
		}
		return len(probs) > 0, strings.Join(probs, "\n"), nil
	}
	if c.RunReplay(eval) {
		return
	}
	c.Regressions(eval)

	avoidEmptyDef = func() bool {
		if c.Avoid("names.empty_definition_name") {
			c.ExcludedMap()["names.empty_definition_name"]++
			return true
		}
		return false
	}
	avoidInProgressCollision = func() bool {
		if c.Avoid("names.collision_while_unsuffixed_in_progress") {
			c.ExcludedMap()["names.collision_while_unsuffixed_in_progress"]++
			return true
		}
		return false
	}
	maxLen, reps := 3, 1
	if c.Thorough() {
		maxLen, reps = 4, 2
	}
	var all []string
	for rep := 0; rep < reps; rep++ {
		all = append(all, enumerateNames(maxLen, rep)...)
	}
	// shard the enumeration
	var mine []string
	for i, n := range all {
		if i%c.Shards == c.Shard {
			mine = append(mine, n)
		}
	}
	// names with runs of white space and with white-space runes other than U+0020 (each in every shard)
	mine = append(mine, "unit  price", "a\tb", "a\u00a0b", "a \t b", "x\u3000y", "two  words  here", " lead", "trail  ")
	c.Extra("enumerated_names", len(mine))
	seen := map[string]bool{}
	var runCases []*RunCase
	noteOf := func(nc *nameCase) string {
		if nc.kind == "nested" || nc.kind == "siblings" {
			arr := jv.V{K: jv.Arr}
			for _, n := range nc.names {
				arr.A = append(arr.A, jv.StrV(n))
			}
			return nc.kind + ":" + string(arr.Marshal())
		}
		return nc.kind
	}
	handle := func(nc *nameCase) {
		st, probs, _ := staticNameCheck(nc)
		c.Eval(1)
		c.Count("static." + nc.kind + "." + st)
		nt := false
		for _, n := range nc.names {
			for _, r := range n {
				if !(r < 0x80 && unicode.IsLetter(r)) {
					nt = true
				}
			}
			if n == "" {
				nt = true
			}
		}
		if nt {
			c.NonTrivial(nc.kind, strings.Join(nc.names, "\x00"), strings.Join(nc.cs.Config.Args(), " "))
		}
		if st != "ok" {
			return
		}
		c.Program(1)
		if len(probs) > 0 {
			key := nc.kind + ":" + normMsg(probs[0])
			if c.Survey() {
				c.SurveyAdd(key, fmt.Sprintf("%q\n%s", nc.names, strings.Join(probs, "\n")))
				return
			}
			if !seen[key] {
				seen[key] = true
				c.Violation(key, probs[0], &core.Replay{Check: "names-static", Case: nc.cs, Note: noteOf(nc), Expected: "valid exported distinct identifiers, exact tags, type-checks", Observed: strings.Join(probs, "\n")})
			}
			return
		}
		if nc.exp != nil {
			runCases = append(runCases, &RunCase{Case: nc.cs, Jobs: []core.Job{{Type: progRoot, Op: "json", Doc: string(nc.doc.Marshal()), Expect: "accept", ExpectVal: expJSON(nc.exp), Label: "binding:" + nc.kind}}})
		}
	}
	cfg0 := baseConfig()
	for lo := 0; lo < len(mine); lo += 20 {
		hi := lo + 20
		if hi > len(mine) {
			hi = len(mine)
		}
		chunk := mine[lo:hi]
		var propNames []string
		for _, n := range chunk {
			if nameAllowed(c, n, true) {
				propNames = append(propNames, n)
			}
		}
		if len(propNames) > 0 {
			handle(nestedNamesCase(propNames, cfg0))
		}
		// definition names must be distinct strings; titles and file names one by one on a sample
		handle(defNamesCase(chunk, cfg0))
	}
	for i, n := range mine {
		if i%7 == 0 {
			handle(titleCase(n, cfg0))
		}
		if i%7 == 3 && !strings.ContainsAny(n, "/\x00") && n != "" && n != "." && n != ".." {
			handle(fileNameCase(n, cfg0))
		}
	}
	for _, set := range collisionSets {
		var ok []string
		for _, n := range set {
			if nameAllowed(c, n, true) {
				ok = append(ok, n)
			}
		}
		handle(siblingNamesCase(ok, cfg0))
		c.Count("siblings.collision_sets")
		// the same sets as definition names: flat, and chained through references in both directions
		var dn []string
		for _, n := range set {
			if n != "" || !c.Avoid("names.empty_definition_name") {
				dn = append(dn, n)
			}
		}
		if len(dn) >= 2 {
			handle(defNamesCase(dn, cfg0))
			// chains: under the open finding only for sets whose members all normalise to ONE identifier
			if uniformSets[set[0]+"|"+set[1]] || !avoidInProgressCollision() {
				handle(chainedDefNamesCase(dn, cfg0))
				rev := append([]string{}, dn...)
				for i, j := 0, len(rev)-1; i < j; i, j = i+1, j-1 {
					rev[i], rev[j] = rev[j], rev[i]
				}
				handle(chainedDefNamesCase(rev, cfg0))
				c.Count("defs.chained_collision_sets")
			}
		}
	}
	c.Sample(map[string]any{"enumerated_examples": mine[:min(len(mine), 12)], "collision_sets": collisionSets[:4]})

	// random names, capitalization lists and tag sets
	runeGen := rapid.Custom(func(rt *rapid.T) rune {
		cl := nameClasses[rapid.IntRange(0, len(nameClasses)-1).Draw(rt, "class")]
		return cl.runes[rapid.IntRange(0, len(cl.runes)-1).Draw(rt, "rune")]
	})
	res := c.Rapid("random", c.N(600, 12000), 0, func(rt *rapid.T) {
		n := rapid.IntRange(1, 8).Draw(rt, "count")
		var names []string
		used := map[string]bool{}
		for i := 0; i < n; i++ {
			var nm string
			if rapid.IntRange(0, 3).Draw(rt, "anyrune") == 0 {
				nm = rapid.StringN(0, 6, -1).Draw(rt, "uname")
			} else {
				nm = string(rapid.SliceOfN(runeGen, 0, 6).Draw(rt, "name"))
			}
			if used[nm] {
				continue
			}
			used[nm] = true
			names = append(names, nm)
		}
		layout := rapid.IntRange(0, 2).Draw(rt, "layout")
		if layout != 2 {
			var ok []string
			for _, nm := range names {
				if nameAllowed(c, nm, true) {
					ok = append(ok, nm)
				}
			}
			names = ok
		}
		if len(names) == 0 {
			return
		}
		cfg := baseConfig()
		switch rapid.IntRange(0, 3).Draw(rt, "tags") {
		case 0:
			cfg.Tags = []string{"json"}
		case 1:
			cfg.Tags = []string{"json", "toml", "xml"}
		}
		if rapid.Bool().Draw(rt, "caps") {
			// capitalizations built from case variants of parts of the names
			for _, nm := range names {
				rs := []rune(nm)
				if len(rs) >= 2 && rapid.Bool().Draw(rt, "capthis") && unicode.IsLetter(rs[0]) && (unicode.IsLetter(rs[1]) || unicode.IsDigit(rs[1])) {
					cfg.Capitalizations = append(cfg.Capitalizations, strings.ToUpper(string(rs[:2])))
				}
			}
			cfg.Capitalizations = append(cfg.Capitalizations, rapid.SampledFrom([]string{"ID", "URL", "aB", "É", "日"}).Draw(rt, "cap"))
		}
		if rapid.IntRange(0, 3).Draw(rt, "lowercap") == 0 {
			// a capitalization that starts with a lower-case letter and names whose first
			// word is that word: the identifier must still be exported
			w := rapid.SampledFrom([]string{"ios", "grpc", "ebay", "mtls", "ébpf"}).Draw(rt, "lowercapword")
			rs := []rune(w)
			cfg.Capitalizations = append(cfg.Capitalizations, string(rs[:1])+strings.ToUpper(string(rs[1:])))
			for _, nm := range []string{w + "_version", w + "Build", w, strings.ToUpper(w) + "-x", "minimum_" + w} {
				if !used[nm] && rapid.Bool().Draw(rt, "lowercapname") {
					used[nm] = true
					names = append(names, nm)
				}
			}
			c.Count("shape.lowercase_initial_capitalization")
		}
		switch layout {
		case 0:
			handle(siblingNamesCase(names, cfg))
		case 1:
			handle(nestedNamesCase(names, cfg))
		default:
			if rapid.Bool().Draw(rt, "chained") && len(names) >= 2 && !avoidInProgressCollision() {
				handle(chainedDefNamesCase(names, cfg))
			} else {
				handle(defNamesCase(names, cfg))
			}
		}
	})
	if res.Failed {
		c.Infra("random generation failed: " + core.Clip(res.Msg, 400))
	}
	// two referenced files whose names normalise to the same identifier: two distinct types,
	// each binding its own file's keys
	resF := c.Rapid("filenames", c.N(24, 300), 5, func(rt *rapid.T) {
		pair := rapid.SampledFrom([][2]string{
			{"parts/line-item.json", "parts/line_item.json"}, {"a/common.json", "b/common.json"},
			{"x/line.item.json", "x/line-item.json"}, {"item.json", "sub/item.json"}, {"LineItem.json", "lineItem.json"},
		}).Draw(rt, "filepair")
		kinds := rapid.Permutation([]model.Kind{model.KString, model.KInteger, model.KBoolean}).Draw(rt, "kinds")
		f1 := &model.File{RelPath: pair[0], ID: "https://example.com/colliding1", Root: &model.Node{Kind: model.KObject, Props: []model.Prop{
			{Name: "sku", Node: &model.Node{Kind: kinds[0]}}}, Required: []string{"sku"}}}
		f2 := &model.File{RelPath: pair[1], ID: "https://example.com/colliding2", Root: &model.Node{Kind: model.KObject, Props: []model.Prop{
			{Name: "qty", Node: &model.Node{Kind: kinds[1]}}, {Name: "note", Node: &model.Node{Kind: kinds[2]}}}, Required: []string{"qty"}}}
		if rapid.Bool().Draw(rt, "swapfiles") {
			f1.Root, f2.Root = f2.Root, f1.Root
		}
		main := &model.File{RelPath: "prog.json", ID: "https://example.com/prog", Root: &model.Node{Kind: model.KObject, Props: []model.Prop{
			{Name: "first", Node: &model.Node{Kind: model.KRef, Ref: pair[0], Target: f1.Root}},
			{Name: "second", Node: &model.Node{Kind: model.KRef, Ref: pair[1], Target: f2.Root}},
			{Name: "more", Node: &model.Node{Kind: model.KArray, Items: &model.Node{Kind: model.KRef, Ref: pair[1], Target: f2.Root}}},
		}, Required: []string{"first", "second"}}}
		cs := caseOf(baseConfig(), []string{main.RelPath}, main, f1, f2)
		o := docOpts(c)
		oo := *o
		oo.AllProps = true
		v, ok := docs.Valid(rt, main.Root, &oo)
		if !ok {
			return
		}
		jobs := []core.Job{{Type: progRoot, Op: "json", Doc: string(v.Marshal()), Expect: "accept", ExpectVal: expJSON(docs.Expect(main.Root, v)), Label: "colliding-files:valid"}}
		muts, _ := docs.Mutants(rt, main.Root, v, map[string]bool{"required": true, "type": true}, o)
		for i := range muts {
			if i >= 40 {
				break
			}
			m := &muts[i]
			jobs = append(jobs, core.Job{Type: progRoot, Op: "json", Doc: string(m.Doc.Marshal()), Expect: "reject", Rule: m.Rule() + "@" + m.Path, Label: "colliding-files:" + strings.SplitN(m.Label, "<-", 2)[0]})
		}
		runCases = append(runCases, &RunCase{Case: cs, Jobs: jobs})
		c.Count("shape.colliding_file_names")
		c.NonTrivial(pair[0], pair[1], cs.Files[1].Text, cs.Files[2].Text)
	})
	if resF.Failed {
		c.Infra("file-name collision generation failed: " + core.Clip(resF.Msg, 400))
	}
	// definitions whose names map to one identifier and that differ only in their default values:
	// two distinct types, each applying its own defaults
	resD := c.Rapid("defaultcollisions", c.N(16, 200), 6, func(rt *rapid.T) {
		f := &model.File{RelPath: "prog.json", ID: "https://example.com/prog", Root: &model.Node{Kind: model.KObject}}
		addCollidingDefs(rt, c, f, "defaultvalue")
		cs := caseOf(baseConfig(), []string{f.RelPath}, f)
		o := docOpts(c)
		var jobs []core.Job
		for _, mode := range []string{"absent", "present"} {
			oo := *o
			oo.NoProps, oo.AllProps = mode == "absent", mode == "present"
			v, ok := docs.Valid(rt, f.Root, &oo)
			if !ok {
				continue
			}
			jobs = append(jobs, core.Job{Type: progRoot, Op: "json", Doc: string(v.Marshal()), Expect: "accept", ExpectVal: expJSON(docs.Expect(f.Root, v)), Label: "colliding-defaults:" + mode})
		}
		runCases = append(runCases, &RunCase{Case: cs, Jobs: jobs})
		c.NonTrivial(cs.Files[0].Text)
	})
	if resD.Failed {
		c.Infra("default collision generation failed: " + core.Clip(resD.Msg, 400))
	}
	// binding run
	seenRun := map[string]bool{}
	for lo := 0; lo < len(runCases); lo += batchSize {
		hi := lo + batchSize
		if hi > len(runCases) {
			hi = len(runCases)
		}
		st, err := evalRunCases(c, runCases[lo:hi], stdJudge, func(rc *RunCase, j *core.Job, r *batch.Result, key, msg string) {
			if c.Survey() {
				c.SurveyAdd("run:"+keyClass(key), msg)
				return
			}
			if seenRun[keyClass(key)] {
				return
			}
			seenRun[keyClass(key)] = true
			c.Violation("run:"+keyClass(key), msg, &core.Replay{Check: "names-run", Case: rc.Case, Jobs: []core.Job{*j}, Expected: "every key bound to its own field", Observed: msg})
		})
		if err != nil {
			c.Infra(err.Error())
			return
		}
		c.Eval(st.jobs)
		c.CountN("run.binding_jobs", st.jobs)
	}
}
