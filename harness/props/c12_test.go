package props

import (
	"fmt"
	"os"
	"path"
	"path/filepath"
	"sort"
	"strings"
	"testing"
	"time"

	"pgregory.net/rapid"

	"verif/harness/core"
	"verif/harness/gen"
	"verif/harness/jv"
	"verif/harness/model"
)

func sourcesEqual(a, b map[string]string) (bool, string) {
	if len(a) != len(b) {
		return false, fmt.Sprintf("different output sets: %v vs %v", keysOf(a), keysOf(b))
	}
	for _, k := range keysOf(a) {
		vb, ok := b[k]
		if !ok {
			return false, fmt.Sprintf("output %q missing in the second run", k)
		}
		if a[k] != vb {
			return false, fmt.Sprintf("output %q differs: %s", k, firstDiffLine(a[k], vb))
		}
	}
	return true, ""
}

func keysOf(m map[string]string) []string {
	out := make([]string, 0, len(m))
	for k := range m {
		out = append(out, k)
	}
	sort.Strings(out)
	return out
}

func firstDiffLine(a, b string) string {
	la, lb := strings.Split(a, "\n"), strings.Split(b, "\n")
	for i := 0; i < len(la) && i < len(lb); i++ {
		if la[i] != lb[i] {
			return fmt.Sprintf("line %d: %q vs %q", i+1, core.Clip(la[i], 120), core.Clip(lb[i], 120))
		}
	}
	return fmt.Sprintf("%d vs %d lines", len(la), len(lb))
}

func resultKey(r *gen.Result) map[string]string {
	if !r.OK() {
		// the diagnostic text may name the directory; only its last line without paths is compared
		return map[string]string{"<error>": "failed"} // diagnostics name paths; both runs failing counts as equal
	}
	return r.Sources
}

// evalC12 runs all variants of the case and compares every result with the
// first one. variants: repeat count, shuffled renderings, relocation.
var c12CLIOnly bool

func evalC12(cases []*gen.Case, repeats int, useCLI, crossStyle bool, cliRunsOpt ...int) (bool, string, error) {
	base := cases[0]
	cliRuns := 2
	if len(cliRunsOpt) > 0 && cliRunsOpt[0] > 2 {
		cliRuns = cliRunsOpt[0]
	}
	dir, err := os.MkdirTemp("", "verif-c12-")
	if err != nil {
		return false, "", err
	}
	defer os.RemoveAll(dir)
	if err := base.WriteFiles(dir); err != nil {
		return false, "", err
	}
	first := gen.RunIn(dir, base, false)
	ref := resultKey(&first)
	for i := 1; i < repeats; i++ {
		r := gen.RunIn(dir, base, false)
		if ok, why := sourcesEqual(ref, resultKey(&r)); !ok {
			return true, fmt.Sprintf("repeated in-process run %d differs from run 0: %s", i, why), nil
		}
	}
	// moved: the same tree in another directory, same addressing style
	dir2, err := os.MkdirTemp("", "verif-c12r-")
	if err != nil {
		return false, "", err
	}
	defer os.RemoveAll(dir2)
	sub := filepath.Join(dir2, "moved", "deeper")
	if err := os.MkdirAll(sub, 0o755); err != nil {
		return false, "", err
	}
	if err := base.WriteFiles(sub); err != nil {
		return false, "", err
	}
	movedAbs := gen.RunIn(sub, base, false)
	if ok, why := sourcesEqual(ref, resultKey(&movedAbs)); !ok {
		return true, "the same tree moved to another directory (absolute paths both times) gives different output: " + why, nil
	}
	rel1 := gen.RunIn(dir, base, true)
	rel2 := gen.RunIn(sub, base, true)
	if ok, why := sourcesEqual(resultKey(&rel1), resultKey(&rel2)); !ok {
		return true, "the same tree moved to another directory (relative paths both times) gives different output: " + why, nil
	}
	if crossStyle {
		if ok, why := sourcesEqual(ref, resultKey(&rel1)); !ok {
			return true, "addressing the same files by relative instead of absolute paths gives different output: " + why, nil
		}
	}
	// re-spelled variants (key order shuffles)
	for vi, v := range cases[1:] {
		d, err := os.MkdirTemp("", "verif-c12v-")
		if err != nil {
			return false, "", err
		}
		if err := v.WriteFiles(d); err != nil {
			os.RemoveAll(d)
			return false, "", err
		}
		rv := gen.RunIn(d, v, false)
		os.RemoveAll(d)
		if ok, why := sourcesEqual(ref, resultKey(&rv)); !ok {
			return true, fmt.Sprintf("key-order permutation %d of the same schema gives different output: %s", vi, why), nil
		}
	}
	if useCLI && first.OK() {
		var outs []map[string]string
		for k := 0; k < cliRuns; k++ {
			res, err := gen.RunCLI(base, nil, nil, 60*time.Second, false)
			if err != nil {
				return false, "", err
			}
			if res.Exit != 0 {
				return true, fmt.Sprintf("in-process run succeeded but CLI process %d failed: %s", k, core.Clip(res.Stderr, 300)), nil
			}
			o := map[string]string{}
			for p, content := range res.Outputs {
				o[p] = content
			}
			if res.Stdout != "" {
				o["-"] = res.Stdout
			}
			outs = append(outs, o)
		}
		for k := 1; k < len(outs); k++ {
			if ok, why := sourcesEqual(outs[0], outs[k]); !ok {
				return true, fmt.Sprintf("separate CLI processes (0 and %d) give different output: %s", k, why), nil
			}
		}
		// history of the output directory: the same run over files that already exist with longer
		// (and with shorter) content must leave exactly the bytes of a fresh run
		pre := map[string]string{}
		for p := range outs[0] {
			if p != "-" {
				pre[p] = strings.Repeat("// stale content of an earlier, longer generation\n", 2000)
			}
		}
		if len(pre) > 0 {
			res, err := gen.RunCLI(base, pre, nil, 60*time.Second, false)
			if err != nil {
				return false, "", err
			}
			over := map[string]string{}
			for p, content := range res.Outputs {
				over[p] = content
			}
			for p := range pre {
				if _, ok := over[p]; !ok {
					over[p] = "<not rewritten>"
				}
			}
			if res.Stdout != "" {
				over["-"] = res.Stdout
			}
			if ok, why := sourcesEqual(outs[0], over); !ok {
				return true, "writing over an existing, longer output file gives other bytes than a fresh run: " + why, nil
			}
		}
		// the CLI runs with cwd = tree root and relative arguments: compare with the in-process run of the same style
		// (not when the case spells one output path in two ways: the library takes output names as given)
		if ok, why := sourcesEqual(resultKey(&rel1), outs[0]); !ok && !c12CLIOnly {
			return true, "CLI process output differs from the in-process run with the same arguments: " + why, nil
		}
	}
	return false, "", nil
}

func TestC12(t *testing.T) {
	c := core.New(t, "C12")
	defer c.Finish()
	defer gen.CleanupCLI()
	c.Rule("single- and multi-file cases whose ordering-relevant maps (properties of an object, definitions of a file, mapped ids, enum tables) have 6-12 entries, random options and mappings; variants: 8 repeated in-process runs, the same tree moved to another directory and addressed by relative paths after chdir, 3 renderings with the members of every JSON object shuffled, and (sample) two separate CLI processes; oracle: byte-identical {name -> bytes} maps; non-trivial = case whose largest ordering-relevant map has >= 6 entries; distinct by sha256(files,args)")
	c.Assume("Go map iteration order is sampled, not enumerated: with n<=8 entries an order leak shows with probability >= 1-(9-n)/8 per pair of runs")
	eval := func(r *core.Replay) (bool, string, error) {
		runs := 2
		if strings.Contains(r.Note, "cli24") {
			runs = 24
		}
		c12CLIOnly = strings.Contains(r.Note, "clionly")
		return evalC12(r.Cases, 8, strings.Contains(r.Note, "cli"), strings.Contains(r.Note, "crossstyle"), runs)
	}
	if c.RunReplay(eval) {
		return
	}
	c.Regressions(eval)
	var last *core.Replay
	cliEvery := 12
	if c.Thorough() {
		cliEvery = 6
	}
	iter := 0
	res := c.Rapid("determinism", c.N(300, 6000), 0, func(rt *rapid.T) {
		m := genMulti(rt, c, multiOpts{maxFiles: 3, allowNoID: true, allowDupID: true, bigMaps: true, yamlFiles: true, hostileText: false})
		if rapid.IntRange(0, 2).Draw(rt, "undeclaredrequired") == 0 {
			// envelope-like objects: additionalProperties open (true or a schema) and 6-8 names in
			// "required" that have no entry under "properties" (legal; with that many a map-ordered
			// traversal shows in nearly every run)
			names := []string{"apiVersion", "kind", "metadata", "spec", "status", "zowner", "zregion", "ztrace"}
			k := rapid.IntRange(6, 8).Draw(rt, "nundeclared")
			add := func(n *model.Node) {
				if n.Kind != model.KObject {
					return
				}
				if n.Additional == nil {
					n.Additional = &model.Additional{Schema: &model.Node{Kind: model.KAny, AnyAsTrue: true}}
				}
				if n.Additional.False {
					return
				}
				for _, nm := range names[:k] {
					if n.Prop(nm) == nil && !n.IsRequired(nm) {
						n.Required = append(n.Required, nm)
					}
				}
			}
			add(m.files[0].Root)
			for _, d := range m.files[0].Defs {
				add(d.Node)
			}
			c.Count("shape.undeclared_required_names_with_open_additional")
		}
		sc := rapid.IntRange(0, 9).Draw(rt, "scenario")
		switch sc {
		case 0, 1:
			// an extension-less reference that several --resolve-extension values can complete:
			// which sibling wins must not depend on anything but the order given
			thingJ := &model.File{RelPath: "thing.json", ID: "https://example.com/thingj", Root: &model.Node{Kind: model.KObject, Props: []model.Prop{{Name: "fromJson", Node: &model.Node{Kind: model.KString}}}}}
			thingY := &model.File{RelPath: "thing.yaml", Format: model.YAML, ID: "https://example.com/thingy", Root: &model.Node{Kind: model.KObject, Props: []model.Prop{{Name: "fromYaml", Node: &model.Node{Kind: model.KInteger}}}}}
			thingM := &model.File{RelPath: "thing.yml", Format: model.YAML, ID: "https://example.com/thingm", Root: &model.Node{Kind: model.KObject, Props: []model.Prop{{Name: "fromYml", Node: &model.Node{Kind: model.KBoolean}}}}}
			main := m.files[0]
			main.RelPath = "mainfile.json"
			main.Format = model.JSON
			main.Root.Props = append(main.Root.Props, model.Prop{Name: "thing", Node: &model.Node{Kind: model.KRef, Ref: "thing", Target: thingJ.Root}})
			m.files = []*model.File{main, thingJ, thingY, thingM}
			m.inputs = []string{main.RelPath}
			m.cfg.Mappings = nil
			m.cfg.ResolveExtensions = rapid.Permutation([]string{".json", ".yaml", ".yml"}).Draw(rt, "extorder")
			m.crossRef = 0
			c.Count("scenario.ambiguous_extension")
		case 2, 3:
			// a chain of file references given by its first file only; all files in one directory
			if len(m.files) >= 2 {
				for _, f := range m.files {
					f.RelPath = path.Base(f.RelPath)
				}
				for i := 0; i+1 < len(m.files); i++ {
					fi, fj := m.files[i], m.files[i+1]
					// drop earlier cross references (they were spelled for the old layout) and chain i -> i+1
					var keep []model.Prop
					for _, p := range fi.Root.Props {
						if p.Node.Kind == model.KRef && !strings.HasPrefix(p.Node.Ref, "#") {
							continue
						}
						keep = append(keep, p)
					}
					fi.Root.Props = append(keep, model.Prop{Name: "chainNext", Node: &model.Node{Kind: model.KRef, Ref: fj.RelPath, Target: fj.Root}})
					var req []string
					for _, r := range fi.Root.Required {
						if fi.Root.Prop(r) != nil {
							req = append(req, r)
						}
					}
					fi.Root.Required = req
				}
				lastF := m.files[len(m.files)-1]
				var keep []model.Prop
				for _, p := range lastF.Root.Props {
					if p.Node.Kind == model.KRef && !strings.HasPrefix(p.Node.Ref, "#") {
						continue
					}
					keep = append(keep, p)
				}
				lastF.Root.Props = keep
				var req []string
				for _, r := range lastF.Root.Required {
					if lastF.Root.Prop(r) != nil {
						req = append(req, r)
					}
				}
				lastF.Root.Required = req
				m.inputs = []string{m.files[0].RelPath}
				m.crossRef = 0 // no argument is also a reference target
				if c.Avoid("paths.chain_with_duplicate_ids") {
					seen := map[string]bool{}
					for i, f := range m.files {
						if f.ID != "" && seen[f.ID] {
							f.ID = fmt.Sprintf("https://example.com/unique%d", i)
							c.ExcludedMap()["paths.chain_with_duplicate_ids"]++
						}
						seen[f.ID] = true
					}
				}
				c.Count("scenario.chain_single_argument")
			}
		}
		cliRuns := 0
		cliOnly := false
		switch sc {
		case 4, 5:
			// a struct-literal default with a nested list next to an enum table: the bytes of either
			// must not depend on what the process rendered before
			main := m.files[0]
			if main.Root.Kind == model.KObject {
				enum := &model.Node{Kind: model.KEnum, EnumVals: []jv.V{jv.StrV("red"), jv.StrV("green"), jv.StrV("blue")}}
				dv := jv.ObjV(jv.Field("mode", jv.StrV("fast")), jv.Field("tags", jv.ArrV(jv.StrV("a"), jv.StrV("b"))), jv.Field("nested", jv.ObjV(jv.Field("k", jv.IntV(1)))))
				opts := &model.Node{Kind: model.KObject, Props: []model.Prop{
					{Name: "mode", Node: &model.Node{Kind: model.KString}},
					{Name: "tags", Node: &model.Node{Kind: model.KArray, Items: &model.Node{Kind: model.KString}}},
					{Name: "nested", Node: &model.Node{Kind: model.KObject, Additional: &model.Additional{Schema: &model.Node{Kind: model.KInteger}}}},
				}, Required: []string{"mode", "tags"}, Default: &dv}
				main.Root.Props = append(main.Root.Props, model.Prop{Name: "aaColor", Node: enum}, model.Prop{Name: "zzOptions", Node: opts}, model.Prop{Name: "zzzColor", Node: model.Clone(enum)})
				c.Count("scenario.struct_default_next_to_enum")
			}
		case 7:
			// definitions whose raw names have equal length and map to one Go identifier: which of them
			// keeps the unnumbered name must not depend on the run
			if m.files[0].Root.Kind == model.KObject {
				addCollidingDefs(rt, c, m.files[0], rapid.SampledFrom([]string{"string", "numeric", "enum", "required"}).Draw(rt, "collidefamily"))
				c.Count("scenario.colliding_definition_names")
			}
		case 8:
			// two ids mapped to ONE output file whose path is spelled in two ways
			if len(m.cfg.Mappings) >= 2 && m.cfg.Mappings[0].Output != "" && m.cfg.Mappings[0].Output != "-" {
				m.cfg.Mappings[1].Output = "./" + m.cfg.Mappings[0].Output
				m.cfg.Mappings[1].Package = m.cfg.Mappings[0].Package
				cliRuns = 24
				cliOnly = true
				c.Count("scenario.one_output_two_spellings")
			}
		case 6:
			// mapping options for namespace ids (prefixes of real ids) next to the exact ones, through
			// the real CLI many times: which option applies must not depend on the process
			var extra []gen.Mapping
			for i, mp := range m.cfg.Mappings {
				if j := strings.LastIndex(mp.ID, "/"); j > len("https://") {
					extra = append(extra, gen.Mapping{ID: mp.ID[:j+1], Package: fmt.Sprintf("example.com/ns%d", i), Output: fmt.Sprintf("ns%d/ns.go", i)})
				}
			}
			if len(extra) > 0 {
				m.cfg.Mappings = append(m.cfg.Mappings, extra...)
				cliRuns = 24
				c.Count("scenario.namespace_mappings_cli")
			}
		}
		opt := drawOptions(rt)
		m.cfg.ExtraImports, m.cfg.OnlyModels, m.cfg.MinSizedInts, m.cfg.StructNameFromTitle = opt.ExtraImports, opt.OnlyModels, opt.MinSizedInts, opt.StructNameFromTitle
		m.cfg.Tags, m.cfg.Capitalizations = opt.Tags, opt.Capitalizations
		base := m.toCase()
		cases := []*gen.Case{base}
		for v := 0; v < 3; v++ {
			perm := rapid.SliceOfN(rapid.IntRange(0, 1000), 16, 16).Draw(rt, "perm")
			for _, f := range m.files {
				f.Spelling.ShuffleKeys = perm
			}
			cases = append(cases, m.toCase())
		}
		for _, f := range m.files {
			f.Spelling.ShuffleKeys = nil
		}
		iter++
		useCLI := iter%cliEvery == 0 || cliRuns > 0
		// a file that is both an argument and a $ref target is loaded twice unless both spellings coincide (known finding)
		crossStyle := m.crossRef == 0 || !c.Avoid("paths.argument_also_ref_target")
		if !crossStyle {
			c.ExcludedMap()["paths.argument_also_ref_target"]++
		}
		c12CLIOnly = cliOnly
		failed, msg, err := evalC12(cases, 8, useCLI, crossStyle, cliRuns)
		if err != nil {
			c.Infra(err.Error())
			return
		}
		c.Eval(8 + 3 + 3)
		if useCLI {
			c.Eval(2)
			c.Count("variant.cli_pairs")
		}
		c.Program(1)
		big := 0
		for _, f := range m.files {
			if len(f.Root.Props) > big {
				big = len(f.Root.Props)
			}
			if len(f.Defs) > big {
				big = len(f.Defs)
			}
		}
		c.Count(fmt.Sprintf("files.%d", len(m.files)))
		if big >= 6 {
			c.NonTrivial(base.Files[0].Text, strings.Join(base.Config.Args(), " "))
		}
		c.Sample(describeCase(base))
		if failed {
			note := ""
			if useCLI {
				note = "cli"
			}
			if cliRuns > 2 {
				note = "cli24"
			}
			if cliOnly {
				note += ",clionly"
			}
			if crossStyle {
				note += ",crossstyle"
			}
			last = &core.Replay{Check: "determinism", Cases: cases, Note: note, Expected: "byte-identical outputs across runs, processes, key orders and locations", Observed: msg}
			rt.Fatalf("%s", msg)
		}
	})
	if res.Failed {
		if last != nil {
			c.Violation("determinism:"+strings.SplitN(last.Observed, ":", 2)[0], last.Observed, last)
		} else {
			c.Infra("rapid failed without a case: " + core.Clip(res.Msg, 400))
		}
	}
	_ = model.JSON
}

func lastErrPart(e string) string {
	lines := strings.Split(strings.TrimSpace(e), "\n")
	last := lines[len(lines)-1]
	if i := strings.LastIndex(last, ": "); i >= 0 {
		last = last[i+2:]
	}
	// strip absolute directories
	fields := strings.Fields(last)
	for i, f := range fields {
		if strings.Contains(f, "/") {
			fields[i] = "<path>/" + f[strings.LastIndex(f, "/")+1:]
		}
	}
	return strings.Join(fields, " ")
}
