package props

import (
	"fmt"
	"os"
	"path/filepath"
	"sort"
	"strings"
	"testing"
	"time"

	"pgregory.net/rapid"

	"verif/harness/core"
	"verif/harness/gen"
	"verif/harness/model"
)

func sourcesEqual(a, b map[string]string) (bool, string) {
	if len(a) != len(b) {
		return false, fmt.Sprintf("different output sets: %v vs %v", keysOf(a), keysOf(b))
	}
	for _, k := range keysOf(a) {
		vb, ok := b[k]
		if !ok {
			return false, fmt.Sprintf("output %q missing in the second run", k)
		}
		if a[k] != vb {
			return false, fmt.Sprintf("output %q differs: %s", k, firstDiffLine(a[k], vb))
		}
	}
	return true, ""
}

func keysOf(m map[string]string) []string {
	out := make([]string, 0, len(m))
	for k := range m {
		out = append(out, k)
	}
	sort.Strings(out)
	return out
}

func firstDiffLine(a, b string) string {
	la, lb := strings.Split(a, "\n"), strings.Split(b, "\n")
	for i := 0; i < len(la) && i < len(lb); i++ {
		if la[i] != lb[i] {
			return fmt.Sprintf("line %d: %q vs %q", i+1, core.Clip(la[i], 120), core.Clip(lb[i], 120))
		}
	}
	return fmt.Sprintf("%d vs %d lines", len(la), len(lb))
}

func resultKey(r *gen.Result) map[string]string {
	if !r.OK() {
		return map[string]string{"<error>": "failed"}
	}
	return r.Sources
}

// evalC12 runs all variants of the case and compares every result with the
// first one. variants: repeat count, shuffled renderings, relocation.
func evalC12(cases []*gen.Case, repeats int, useCLI, crossStyle bool) (bool, string, error) {
	base := cases[0]
	dir, err := os.MkdirTemp("", "verif-c12-")
	if err != nil {
		return false, "", err
	}
	defer os.RemoveAll(dir)
	if err := base.WriteFiles(dir); err != nil {
		return false, "", err
	}
	first := gen.RunIn(dir, base, false)
	ref := resultKey(&first)
	for i := 1; i < repeats; i++ {
		r := gen.RunIn(dir, base, false)
		if ok, why := sourcesEqual(ref, resultKey(&r)); !ok {
			return true, fmt.Sprintf("repeated in-process run %d differs from run 0: %s", i, why), nil
		}
	}
	// moved: the same tree in another directory, same addressing style
	dir2, err := os.MkdirTemp("", "verif-c12r-")
	if err != nil {
		return false, "", err
	}
	defer os.RemoveAll(dir2)
	sub := filepath.Join(dir2, "moved", "deeper")
	if err := os.MkdirAll(sub, 0o755); err != nil {
		return false, "", err
	}
	if err := base.WriteFiles(sub); err != nil {
		return false, "", err
	}
	movedAbs := gen.RunIn(sub, base, false)
	if ok, why := sourcesEqual(ref, resultKey(&movedAbs)); !ok {
		return true, "the same tree moved to another directory (absolute paths both times) gives different output: " + why, nil
	}
	rel1 := gen.RunIn(dir, base, true)
	rel2 := gen.RunIn(sub, base, true)
	if ok, why := sourcesEqual(resultKey(&rel1), resultKey(&rel2)); !ok {
		return true, "the same tree moved to another directory (relative paths both times) gives different output: " + why, nil
	}
	if crossStyle {
		if ok, why := sourcesEqual(ref, resultKey(&rel1)); !ok {
			return true, "addressing the same files by relative instead of absolute paths gives different output: " + why, nil
		}
	}
	// re-spelled variants (key order shuffles)
	for vi, v := range cases[1:] {
		d, err := os.MkdirTemp("", "verif-c12v-")
		if err != nil {
			return false, "", err
		}
		if err := v.WriteFiles(d); err != nil {
			os.RemoveAll(d)
			return false, "", err
		}
		rv := gen.RunIn(d, v, false)
		os.RemoveAll(d)
		if ok, why := sourcesEqual(ref, resultKey(&rv)); !ok {
			return true, fmt.Sprintf("key-order permutation %d of the same schema gives different output: %s", vi, why), nil
		}
	}
	if useCLI && first.OK() {
		var outs []map[string]string
		for k := 0; k < 2; k++ {
			res, err := gen.RunCLI(base, nil, nil, 60*time.Second, false)
			if err != nil {
				return false, "", err
			}
			if res.Exit != 0 {
				return true, fmt.Sprintf("in-process run succeeded but CLI process %d failed: %s", k, core.Clip(res.Stderr, 300)), nil
			}
			o := map[string]string{}
			for p, content := range res.Outputs {
				o[p] = content
			}
			if res.Stdout != "" {
				o["-"] = res.Stdout
			}
			outs = append(outs, o)
		}
		if ok, why := sourcesEqual(outs[0], outs[1]); !ok {
			return true, "two separate CLI processes give different output: " + why, nil
		}
		// the CLI runs with cwd = tree root and relative arguments: compare with the in-process run of the same style
		if ok, why := sourcesEqual(resultKey(&rel1), outs[0]); !ok {
			return true, "CLI process output differs from the in-process run with the same arguments: " + why, nil
		}
	}
	return false, "", nil
}

func TestC12(t *testing.T) {
	c := core.New(t, "C12")
	defer c.Finish()
	defer gen.CleanupCLI()
	c.Rule("single- and multi-file cases whose ordering-relevant maps (properties of an object, definitions of a file, mapped ids, enum tables) have 6-12 entries, random options and mappings; variants: 8 repeated in-process runs, the same tree moved to another directory and addressed by relative paths after chdir, 3 renderings with the members of every JSON object shuffled, and (sample) two separate CLI processes; oracle: byte-identical {name -> bytes} maps; non-trivial = case whose largest ordering-relevant map has >= 6 entries; distinct by sha256(files,args)")
	c.Assume("Go map iteration order is sampled, not enumerated: with n<=8 entries an order leak shows with probability >= 1-(9-n)/8 per pair of runs")
	eval := func(r *core.Replay) (bool, string, error) {
		return evalC12(r.Cases, 8, strings.Contains(r.Note, "cli"), strings.Contains(r.Note, "crossstyle"))
	}
	if c.RunReplay(eval) {
		return
	}
	c.Regressions(eval)
	var last *core.Replay
	cliEvery := 12
	if c.Thorough() {
		cliEvery = 6
	}
	iter := 0
	res := c.Rapid("determinism", c.N(300, 6000), 0, func(rt *rapid.T) {
		m := genMulti(rt, c, multiOpts{maxFiles: 3, allowNoID: true, allowDupID: true, bigMaps: true, yamlFiles: true, hostileText: false})
		opt := drawOptions(rt)
		m.cfg.ExtraImports, m.cfg.OnlyModels, m.cfg.MinSizedInts, m.cfg.StructNameFromTitle = opt.ExtraImports, opt.OnlyModels, opt.MinSizedInts, opt.StructNameFromTitle
		m.cfg.Tags, m.cfg.Capitalizations = opt.Tags, opt.Capitalizations
		base := m.toCase()
		cases := []*gen.Case{base}
		for v := 0; v < 3; v++ {
			perm := rapid.SliceOfN(rapid.IntRange(0, 1000), 16, 16).Draw(rt, "perm")
			for _, f := range m.files {
				f.Spelling.ShuffleKeys = perm
			}
			cases = append(cases, m.toCase())
		}
		for _, f := range m.files {
			f.Spelling.ShuffleKeys = nil
		}
		iter++
		useCLI := iter%cliEvery == 0
		// a file that is both an argument and a $ref target is loaded twice unless both spellings coincide (known finding)
		crossStyle := m.crossRef == 0 || !c.Avoid("paths.argument_also_ref_target")
		if !crossStyle {
			c.ExcludedMap()["paths.argument_also_ref_target"]++
		}
		failed, msg, err := evalC12(cases, 8, useCLI, crossStyle)
		if err != nil {
			c.Infra(err.Error())
			return
		}
		c.Eval(8 + 3 + 3)
		if useCLI {
			c.Eval(2)
			c.Count("variant.cli_pairs")
		}
		c.Program(1)
		big := 0
		for _, f := range m.files {
			if len(f.Root.Props) > big {
				big = len(f.Root.Props)
			}
			if len(f.Defs) > big {
				big = len(f.Defs)
			}
		}
		c.Count(fmt.Sprintf("files.%d", len(m.files)))
		if big >= 6 {
			c.NonTrivial(base.Files[0].Text, strings.Join(base.Config.Args(), " "))
		}
		c.Sample(describeCase(base))
		if failed {
			note := ""
			if useCLI {
				note = "cli"
			}
			if crossStyle {
				note += ",crossstyle"
			}
			last = &core.Replay{Check: "determinism", Cases: cases, Note: note, Expected: "byte-identical outputs across runs, processes, key orders and locations", Observed: msg}
			rt.Fatalf("%s", msg)
		}
	})
	if res.Failed {
		if last != nil {
			c.Violation("determinism:"+strings.SplitN(last.Observed, ":", 2)[0], last.Observed, last)
		} else {
			c.Infra("rapid failed without a case: " + core.Clip(res.Msg, 400))
		}
	}
	_ = model.JSON
}
