package props

import (
	"fmt"
	"strings"
	"testing"

	"pgregory.net/rapid"

	"verif/harness/core"
	"verif/harness/docs"
	"verif/harness/jv"
	"verif/harness/model"
	"verif/harness/sgen"
)

// arrayNode draws an array of depth 1..3 with independent bounds per level.
func arrayNode(t *rapid.T, c *core.Ctx, ctx *sgen.Ctx, depth int) *model.Node {
	var elem *model.Node
	switch k := rapid.IntRange(0, 9).Draw(t, "elemkind"); {
	case k < 4:
		elem = &model.Node{Kind: rapid.SampledFrom([]model.Kind{model.KString, model.KInteger, model.KNumber, model.KBoolean}).Draw(t, "prim")}
	case k < 6 && len(ctx.Defs) > 0:
		d := rapid.SampledFrom(ctx.Defs).Draw(t, "def")
		elem = &model.Node{Kind: model.KRef, Ref: "#/$defs/" + d.Name, Target: d.Node}
	case k < 8:
		elem = &model.Node{Kind: model.KObject, Props: []model.Prop{{Name: "k", Node: &model.Node{Kind: model.KInteger, Minimum: model.FloatP(0)}}}, Required: []string{"k"}}
	default:
		// primitive with inline constraints (class reported separately, A19)
		if c.Avoid("arrays.inline_constrained_items") {
			c.ExcludedMap()["arrays.inline_constrained_items"]++
			elem = &model.Node{Kind: model.KInteger}
		} else {
			elem = &model.Node{Kind: model.KInteger, Minimum: model.FloatP(3)}
		}
	}
	var levels [][2]*int
	for i := 0; i < depth; i++ {
		var mn, mx *int
		if rapid.IntRange(0, 9).Draw(t, "hasmin") < 6 {
			mn = model.IntP(rapid.IntRange(1, 3).Draw(t, "min"))
		}
		if rapid.IntRange(0, 9).Draw(t, "hasmax") < 6 {
			lo := 1
			if mn != nil {
				lo = *mn
			}
			mx = model.IntP(rapid.IntRange(lo, lo+2).Draw(t, "max"))
			if mn == nil && rapid.IntRange(0, 7).Draw(t, "maxzero") == 0 {
				if c.Avoid("arrays.max_items_zero") {
					c.ExcludedMap()["arrays.max_items_zero"]++
				} else {
					mx = model.IntP(0)
				}
			}
		}
		levels = append(levels, [2]*int{mn, mx})
	}
	if depth > 1 && c.Avoid("arrays.nested_levels_differ") {
		c.ExcludedMap()["arrays.nested_levels_differ"]++
		for i := 1; i < depth; i++ {
			levels[i] = levels[0]
		}
	}
	n := elem
	for i := depth - 1; i >= 0; i-- {
		n = &model.Node{Kind: model.KArray, Items: n, MinItems: levels[i][0], MaxItems: levels[i][1]}
	}
	return n
}

func TestC07(t *testing.T) {
	c := core.New(t, "C07")
	defer c.Finish()
	c.Rule("programs whose properties are arrays of nesting depth 1-3 with independent minItems/maxItems per level (required/optional/nullable; element schemas: unconstrained primitives, objects, named definitions, inline-constrained primitives); documents: in-range at min, max and between, absent, null, and mutants with exactly one array at one level one element short or long (all other levels in range), plus wrong-typed and invalid elements; oracle = every array's length within the bounds stated on that array AND every element valid; non-trivial = violation or in-range document at depth >= 2; distinct by sha256(schema,args,document)")
	c.Assume("R3", "R4", "reference oracle section 1.4")
	eval := runReplayEval(stdJudge)
	if c.RunReplay(eval) {
		return
	}
	c.Regressions(eval)
	o := docOpts(c)
	prof := &sgen.Profile{MaxDepth: 2, MinProps: 1, MaxProps: 3, Avoid: c.Avoid, Excluded: c.ExcludedMap(), Sat: docs.Satisfiable,
		WString: 1, WInteger: 1, PConstraint: 0.5}
	plan := &docPlan{NValid: 5, Kinds: map[string]bool{"array": true, "type": true, "numeric": true, "required": true},
		NTMutant: func(m *docs.Mutant) bool { return m.Pos.InArray >= 1 },
		NTValid:  func(v jv.V) bool { return true },
	}
	runProperty(c, "run", c.N(240, 6000), 0, func(rt *rapid.T) *RunCase {
		ctx := &sgen.Ctx{P: prof}
		f := &model.File{RelPath: "prog.json", ID: "https://example.com/prog"}
		nd := rapid.IntRange(1, 2).Draw(rt, "ndefs")
		for i := 0; i < nd; i++ {
			var dn *model.Node
			switch rapid.IntRange(0, 3).Draw(rt, "defkind") {
			case 3:
				// a row type: an array definition that states no limits of its own (rows of any
				// length are valid whatever the limits of the array that holds them)
				dn = &model.Node{Kind: model.KArray, Items: &model.Node{Kind: rapid.SampledFrom([]model.Kind{model.KString, model.KInteger, model.KNumber}).Draw(rt, "rowprim")}}
				c.Count("shape.array_definition_without_limits")
			case 0:
				dn = &model.Node{Kind: model.KString, MinLength: model.IntP(2)}
			case 1:
				dn = &model.Node{Kind: model.KInteger, Minimum: model.FloatP(1), Maximum: model.FloatP(9)}
			default:
				dn = &model.Node{Kind: model.KObject, Props: []model.Prop{{Name: "q", Node: &model.Node{Kind: model.KString}}}, Required: []string{"q"}}
			}
			ctx.Defs = append(ctx.Defs, model.Def{Name: fmt.Sprintf("D%d", i), Node: dn})
		}
		f.Defs = ctx.Defs
		root := &model.Node{Kind: model.KObject}
		np := rapid.IntRange(1, 4).Draw(rt, "nprops")
		for i := 0; i < np; i++ {
			depth := rapid.SampledFrom([]int{1, 1, 2, 2, 3, 3}).Draw(rt, "depth")
			an := arrayNode(rt, c, ctx, depth)
			name := fmt.Sprintf("a%d", i)
			switch rapid.IntRange(0, 2).Draw(rt, "poskind") {
			case 0:
				root.Required = append(root.Required, name)
			case 1:
				an.Nullable = true
				an.NullFirst = rapid.Bool().Draw(rt, "nullfirst")
				if rapid.Bool().Draw(rt, "reqnullable") {
					root.Required = append(root.Required, name)
				}
			}
			root.Props = append(root.Props, model.Prop{Name: name, Node: an})
			c.Count(fmt.Sprintf("shape.depth%d", depth))
		}
		f.Root = root
		if rapid.IntRange(0, 3).Draw(rt, "collidingdefs") == 0 {
			addCollidingDefs(rt, c, f, "array")
		}
		var scen []string
		if rapid.IntRange(0, 3).Draw(rt, "mergeoverlay") == 0 {
			scen = addMergeOverlayScenario(rt, c, f, "array")
		}
		// array properties with a default AND limits: a given array is still measured
		addOptionalDefaults(rt, c, f, 0.3, o)
		cs := caseOf(baseConfig(), []string{f.RelPath}, f)
		countShapes(c, f, cs.Config)
		jobs := buildJobs(rt, c, f.Root, progRoot, plan, o, cs)
		if len(scen) > 0 {
			var kept []core.Job
			for _, j := range jobs {
				if !strings.Contains(j.Doc, `"astrict"`) && !strings.Contains(j.Doc, `"zzstrict"`) {
					kept = append(kept, j)
				}
			}
			jobs = append(kept, scenarioOnlyJobs(rt, c, f.Root, scen, map[string]bool{"array": true, "required": true}, o)...)
		}
		c.Sample(sampleOf(cs, jobs))
		return &RunCase{Case: cs, Jobs: jobs, Model: modelIfSingle(cs, f)}
	}, stdJudge)
}
