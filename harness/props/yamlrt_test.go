package props

import (
	"encoding/json"

	goccy "github.com/goccy/go-yaml"

	"verif/harness/jv"
)

// yamlRoundTripOK parses rendered YAML with a parser other than the one the
// generated code uses (goccy instead of yaml.v3) and compares with the model.
func yamlRoundTripOK(text string, want jv.V) bool {
	var got interface{}
	if err := goccy.Unmarshal([]byte(text), &got); err != nil {
		return false
	}
	b, err := json.Marshal(normalizeYAML(got))
	if err != nil {
		return false
	}
	g, err := jv.Parse(b)
	if err != nil {
		return false
	}
	return jv.Equal(g, want)
}

func normalizeYAML(v interface{}) interface{} {
	switch t := v.(type) {
	case map[string]interface{}:
		out := map[string]interface{}{}
		for k, e := range t {
			out[k] = normalizeYAML(e)
		}
		return out
	case map[interface{}]interface{}:
		out := map[string]interface{}{}
		for k, e := range t {
			ks, _ := k.(string)
			out[ks] = normalizeYAML(e)
		}
		return out
	case []interface{}:
		for i := range t {
			t[i] = normalizeYAML(t[i])
		}
		return t
	}
	return v
}
