package props

import (
	"fmt"
	"strings"
	"testing"

	"pgregory.net/rapid"

	"verif/harness/core"
	"verif/harness/gen"
	"verif/harness/model"
)

var c13Status func(string)

func evalC13(cases []*gen.Case) (bool, string) {
	ra := gen.Run(cases[0])
	rb := gen.Run(cases[1])
	if c13Status != nil {
		switch {
		case ra.OK() && rb.OK():
			c13Status("pair.both_generated")
		case !ra.OK() && !rb.OK():
			c13Status("pair.both_rejected")
		default:
			c13Status("pair.one_sided")
		}
	}
	if ra.Panic != "" || rb.Panic != "" {
		// a panic is C18's subject; here only a one-sided one matters
		if (ra.Panic != "") != (rb.Panic != "") {
			return true, "one spelling makes the generator panic, the other does not: " + core.Clip(ra.Panic+rb.Panic, 300)
		}
		return false, ""
	}
	if !ra.OK() || !rb.OK() {
		if ra.OK() != rb.OK() {
			return true, fmt.Sprintf("one spelling is accepted, the other rejected: %q vs %q", core.Clip(ra.Err, 200), core.Clip(rb.Err, 200))
		}
		return false, ""
	}
	if ok, why := sourcesEqual(ra.Sources, rb.Sources); !ok {
		return true, "equivalent spellings generate different code: " + why
	}
	return false, ""
}

var bareNames = []string{"1", "42", "0", "true", "false", "123456"}

func TestC13(t *testing.T) {
	c := core.New(t, "C13")
	defer c.Finish()
	c.Rule("one schema model rendered twice with a random non-empty subset of re-spellings: JSON <-> YAML (block or flow, numeric/boolean-looking keys unquoted), $id <-> id, $defs <-> definitions with #/$defs/ <-> #/definitions/ and upper-case prefixes, both definition keywords with identical content, dependentSchemas <-> dependencies, \"type\":\"T\" <-> [\"T\"], true <-> {} at property/items/additionalProperties positions; same file stem, resolve-extensions [.json,.yaml]; oracle: byte-identical outputs (or both runs fail); non-trivial = >=2 re-spellings at once or a YAML rendering with a non-string-looking key; distinct by sha256(both renderings)")
	c.Assume("unquoted YAML keys are only used where the key text is the canonical form of the scalar (\"1\", \"true\")")
	eval := func(r *core.Replay) (bool, string, error) {
		f, m := evalC13(r.Cases)
		return f, m, nil
	}
	if c.RunReplay(eval) {
		return
	}
	c.Regressions(eval)
	prof := fullMixProfile(c)
	prof.HostileText = false
	c13Status = c.Count
	var last *core.Replay
	res := c.Rapid("spellings", c.N(1500, 30000), 0, func(rt *rapid.T) {
		f := prof.File(rt, "prog.json")
		// any-schemas are spelled by the Spelling, not per node
		hasBare := false
		model.Walk(f.Root, func(n *model.Node) { n.AnyAsTrue = false })
		for _, d := range f.Defs {
			model.Walk(d.Node, func(n *model.Node) { n.AnyAsTrue = false })
		}
		// some numeric/boolean-looking property names
		if rapid.IntRange(0, 2).Draw(rt, "barenames") == 0 {
			used := map[string]bool{}
			for i := range f.Root.Props {
				if rapid.IntRange(0, 2).Draw(rt, "bare") == 0 {
					nm := rapid.SampledFrom(bareNames).Draw(rt, "barename")
					if used[nm] {
						continue
					}
					used[nm] = true
					old := f.Root.Props[i].Name
					f.Root.Props[i].Name = nm
					for k, r := range f.Root.Required {
						if r == old {
							f.Root.Required[k] = nm
						}
					}
					hasBare = true
				}
			}
		}
		// untyped additionalProperties and inert dependency schemas
		if rapid.IntRange(0, 3).Draw(rt, "addlany") == 0 {
			f.Root.Additional = &model.Additional{Schema: &model.Node{Kind: model.KAny}}
		}
		if rapid.IntRange(0, 2).Draw(rt, "deps") == 0 {
			f.Deps = []model.Prop{{Name: "depkey", Node: &model.Node{Kind: model.KObject, Props: []model.Prop{{Name: "q", Node: &model.Node{Kind: model.KString}}}}}}
		}
		if rapid.IntRange(0, 2).Draw(rt, "innerdeps") == 0 {
			// the same inert keyword on non-root schemas (object properties and definitions), with an
			// anything-schema among the entries ({} or true, by spelling) next to an object schema
			var hosts []*model.Node
			visit := func(n *model.Node) {
				if n.Kind == model.KObject && n != f.Root {
					hosts = append(hosts, n)
				}
			}
			model.Walk(f.Root, visit)
			for _, d := range f.Defs {
				model.Walk(d.Node, visit)
			}
			if len(hosts) > 0 {
				h := rapid.SampledFrom(hosts).Draw(rt, "depshost")
				h.Deps = []model.Prop{
					{Name: "voucher", Node: &model.Node{Kind: model.KAny}},
					{Name: "card", Node: &model.Node{Kind: model.KObject, Props: []model.Prop{{Name: "cvc", Node: &model.Node{Kind: model.KString}}}}},
				}
				c.Count("shape.dependency_schemas_on_inner_schema")
			}
		}
		cfg := drawOptions(rt)
		cfg.ResolveExtensions = []string{".json", ".yaml"}
		if rapid.IntRange(0, 2).Draw(rt, "rootmapping") == 0 {
			// mappings are keyed by the schema id, whichever way it is spelled
			cfg.Mappings = []gen.Mapping{{ID: f.ID, Package: cfg.DefaultPackage, Output: "-", RootType: "MappedRoot"}}
			c.Count("pair.with_root_type_mapping")
		}
		noExt := rapid.IntRange(0, 3).Draw(rt, "noext") == 0 // the argument is given without its extension
		draw := func(label string) (model.Spelling, model.Format, []string) {
			var sp model.Spelling
			var names []string
			format := model.JSON
			b := func(n string) bool {
				v := rapid.IntRange(0, 2).Draw(rt, label+n) == 0
				if v {
					names = append(names, n)
				}
				return v
			}
			sp.LegacyID = b("legacyid")
			sp.LegacyDefs = b("legacydefs")
			if !sp.LegacyDefs {
				sp.BothDefs = b("bothdefs")
			}
			sp.UpperRefPrefix = b("upperprefix")
			sp.PointerOther = b("pointerother")
			sp.TypeAsList = b("typeaslist")
			sp.AnyAsTrue = b("anyastrue")
			sp.LegacyDeps = b("legacydeps")
			if b("yaml") {
				format = model.YAML
				sp.YAMLFlow = b("flow")
				sp.YAMLBareKeys = b("barekeys")
				sp.YAMLPlainStrings = b("plainstrings")
			}
			return sp, format, names
		}
		if len(f.Defs) > 0 && rapid.IntRange(0, 7).Draw(rt, "library") == 0 {
			// a "library" document: an identifier and a definitions container, nothing else.
			// Whatever the tool does with it, it must do it for every spelling.
			f.Root, f.Title, f.Deps = nil, "", nil
			cfg.Mappings = nil
			c.Count("pair.library_document")
		}
		spA, fmtA, namesA := draw("a.")
		spB, fmtB, namesB := draw("b.")
		// a YAML file whose extension is written in upper case, declared with --yaml-extension in
		// the same case (the only way to have it read as YAML): same schema, same code
		yamlName := "prog.yaml"
		if !noExt && rapid.IntRange(0, 3).Draw(rt, "upperyamlext") == 0 {
			ext := rapid.SampledFrom([]string{".YML", ".YAML", ".Yaml"}).Draw(rt, "yamlextcase")
			yamlName = "prog" + ext
			cfg.YAMLExtensions = []string{ext}
			// the root type is named after the file name minus a --resolve-extension value: list the
			// extension there too, as the json/yaml pair is, so that the name does not depend on it
			cfg.ResolveExtensions = append(cfg.ResolveExtensions, ext)
			c.Count("pair.upper_case_yaml_extension")
		}
		render := func(sp model.Spelling, format model.Format) *gen.Case {
			f.Spelling, f.Format = sp, format
			f.RelPath = "prog.json"
			if format == model.YAML {
				f.RelPath = yamlName
			}
			cs := caseOf(cfg, []string{f.RelPath}, f)
			if noExt {
				cs.Inputs = []string{"prog"}
			}
			return cs
		}
		ca, cb := render(spA, fmtA), render(spB, fmtB)
		if noExt {
			c.Count("pair.argument_without_extension")
		}
		if ca.Files[0].Text == cb.Files[0].Text && ca.Files[0].RelPath == cb.Files[0].RelPath {
			c.Count("pair.identical_text")
			return
		}
		diff := map[string]bool{}
		for _, n := range namesA {
			diff[n] = !diff[n]
		}
		for _, n := range namesB {
			diff[n] = !diff[n]
		}
		nd := 0
		for n, v := range diff {
			if v {
				nd++
				c.Count("respelling." + n)
			}
		}
		failed, msg := evalC13([]*gen.Case{ca, cb})
		c.Eval(1)
		c.Program(2)
		if nd >= 2 || (hasBare && (spA.YAMLBareKeys != spB.YAMLBareKeys)) {
			c.NonTrivial(ca.Files[0].Text, cb.Files[0].Text, strings.Join(cfg.Args(), " "))
		}
		if hasBare && (fmtA == model.YAML && spA.YAMLBareKeys || fmtB == model.YAML && spB.YAMLBareKeys) {
			c.Count("pair.yaml_nonstring_keys")
		}
		c.Sample(map[string]any{"a": describeCase(ca), "b": describeCase(cb)})
		if failed {
			last = &core.Replay{Check: "spellings", Cases: []*gen.Case{ca, cb}, Expected: "byte-identical output for equivalent spellings", Observed: msg}
			rt.Fatalf("%s", msg)
		}
	})
	if res.Failed {
		if last != nil {
			c.Violation("spellings", last.Observed, last)
		} else {
			c.Infra("rapid failed without a case: " + core.Clip(res.Msg, 400))
		}
	}
}
