package props

import (
	"fmt"
	"go/ast"
	"go/parser"
	"go/token"
	"path"
	"path/filepath"
	"strings"
	"testing"
	"time"

	"pgregory.net/rapid"

	"verif/harness/batch"
	"verif/harness/core"
	"verif/harness/docs"
	"verif/harness/gen"
	"verif/harness/jv"
	"verif/harness/model"
	"verif/harness/oracle"
	"verif/harness/sgen"
)

// ---------------------------------------------------------------------------
// factoring an inline model into definitions and sibling files

type slot struct {
	ptr      **model.Node
	inItem   bool
	inAnyOf  bool // a whole anyOf branch
	inBranch bool // a whole allOf/anyOf branch
}

func slotsOf(n *model.Node, seen map[*model.Node]bool, out *[]slot) {
	if n == nil || seen[n] {
		return
	}
	seen[n] = true
	for i := range n.Props {
		*out = append(*out, slot{ptr: &n.Props[i].Node})
		slotsOf(n.Props[i].Node, seen, out)
	}
	if n.Items != nil {
		*out = append(*out, slot{ptr: &n.Items, inItem: true})
		slotsOf(n.Items, seen, out)
	}
	for i, b := range n.Branches {
		// a whole branch can be given by reference too
		*out = append(*out, slot{ptr: &n.Branches[i], inBranch: true, inAnyOf: n.Kind == model.KAnyOf})
		slotsOf(b, seen, out)
	}
}

func constrainedPrimitive(n *model.Node) bool {
	switch n.Kind {
	case model.KString:
		return n.MinLength != nil || n.MaxLength != nil || n.Pattern != ""
	case model.KInteger, model.KNumber:
		return n.Minimum != nil || n.Maximum != nil || n.ExclMin != nil || n.ExclMax != nil || n.MultipleOf != nil
	}
	return false
}

func factorable(c *core.Ctx, n *model.Node, s slot) bool {
	if n == nil || n.Nullable || n.Default != nil {
		return false
	}
	if s.inBranch {
		if n.Kind != model.KObject || len(n.Props) == 0 || n.NoType {
			return false
		}
		if s.inAnyOf && len(n.Required) == 0 && c.Avoid("anyof.ref_branch_without_validators") {
			return false
		}
		return true
	}
	switch n.Kind {
	case model.KObject:
		return len(n.Props) > 0
	case model.KString:
		if n.Format != "" {
			return false
		}
		if s.inItem && constrainedPrimitive(n) && c.Avoid("arrays.inline_constrained_items") {
			return false
		}
		return true
	case model.KInteger, model.KNumber:
		if s.inItem && constrainedPrimitive(n) && c.Avoid("arrays.inline_constrained_items") {
			return false
		}
		if n.Kind == model.KNumber && n.MultipleOf != nil && c.Avoid("numbers.named_float_multipleof") {
			return false
		}
		return true
	case model.KEnum:
		return true
	case model.KArray:
		if c.Avoid("refs.array_definition") {
			return false
		}
		return n.Items != nil
	}
	return false
}

// defName: definition names are either unique counters (X1, Y2, ...) or, in
// half of the cases, drawn from a tiny pool so that the same name occurs in
// several documents of one case (unique within each document).
func (b *refBuilder) defName(f *model.File, prefix string, depth int, n *model.Node) string {
	b.ndef++
	pooled := b.sameNames
	inside := map[string]bool{}
	if b.c.Avoid("names.collision_while_unsuffixed_in_progress") {
		// the same finding: names of definitions referenced from inside n
		model.Walk(n, func(x *model.Node) {
			if x.Kind == model.KRef {
				if i := strings.LastIndex(x.Ref, "/"); i >= 0 && strings.Contains(x.Ref, "#/") {
					inside[x.Ref[i+1:]] = true
				}
			}
		})
	}
	if pooled && depth > 0 && b.c.Avoid("names.collision_while_unsuffixed_in_progress") {
		// known finding: a same-named type met while the outer declaration is still in progress
		b.c.ExcludedMap()["names.collision_while_unsuffixed_in_progress"]++
		pooled = false
	}
	if pooled && n != nil && n.Kind == model.KEnum && b.c.Avoid("names.enum_constant_equals_type_name") {
		// known finding: the constant <Def><Value> of a string enum definition and the type
		// <Def><Property> of a same-named object definition in another document share one name
		for _, v := range n.EnumVals {
			if v.K == jv.Str {
				b.c.ExcludedMap()["names.enum_constant_equals_type_name"]++
				pooled = false
				break
			}
		}
	}
	if pooled {
		for _, cand := range []string{"Base", "Item", "Meta", "Part"} {
			taken := false
			if f != nil {
				for _, d := range f.Defs {
					if d.Name == cand {
						taken = true
					}
				}
			}
			if !taken && !inside[cand] {
				b.modes["defname.pooled"]++
				return cand
			}
		}
	}
	return fmt.Sprintf("%s%d", prefix, b.ndef)
}

type refBuilder struct {
	sameNames bool
	c         *core.Ctx
	t         *rapid.T
	files     []*model.File
	nfile     int
	ndef      int
	resExt    bool
	modes     map[string]int
}

func relPath(fromDir, to string) string {
	r, err := filepath.Rel("/"+fromDir, "/"+to)
	if err != nil {
		return to
	}
	return r
}

// spellFileRef chooses one of the spellings of a file reference.
func (b *refBuilder) spellFileRef(fromDir, target string) string {
	rel := relPath(fromDir, target)
	noext := rel
	if b.resExt {
		noext = strings.TrimSuffix(strings.TrimSuffix(rel, ".json"), ".yaml")
	}
	if b.resExt && rapid.IntRange(0, 9).Draw(b.t, "noext") < 4 {
		b.modes["path.no_extension"]++
		return noext
	}
	switch rapid.IntRange(0, 6).Draw(b.t, "refspelling") {
	case 0:
		b.modes["path.relative"]++
		return rel
	case 1:
		b.modes["path.dot_relative"]++
		if strings.HasPrefix(rel, "..") {
			return rel
		}
		return "./" + rel
	case 2:
		b.modes["path.absolute"]++
		return gen.RootToken + "/" + target
	case 3:
		b.modes["path.file_scheme_relative"]++
		return "file://" + rel
	case 4:
		b.modes["path.file_scheme_absolute"]++
		return "file://" + gen.RootToken + "/" + target
	case 5:
		if b.resExt {
			b.modes["path.no_extension"]++
			return noext
		}
	}
	b.modes["path.relative"]++
	return rel
}

func (b *refBuilder) newFile(dirOf string, node *model.Node, asDef string) *model.File {
	b.nfile++
	var dir string
	switch rapid.IntRange(0, 2).Draw(b.t, "placement") {
	case 0:
		dir = dirOf
		b.modes["dir.same"]++
	case 1:
		dir = path.Join(dirOf, fmt.Sprintf("s%d", b.nfile))
		b.modes["dir.sub"]++
	default:
		if dirOf != "" {
			dir = path.Dir(dirOf)
			if dir == "." {
				dir = ""
			}
			b.modes["dir.parent"]++
		} else {
			dir = fmt.Sprintf("t%d", b.nfile)
			b.modes["dir.sub"]++
		}
	}
	ext := ".json"
	format := model.JSON
	if rapid.IntRange(0, 3).Draw(b.t, "yamlfile") == 0 {
		ext, format = ".yaml", model.YAML
		b.modes["file.yaml"]++
	}
	name := fmt.Sprintf("ext%d", b.nfile)
	twin := false
	if b.sameNames && !b.resExt {
		// a twin: the same directory and base name as an earlier file, the other extension
		// (limits.json next to limits.yaml are two documents)
		for _, of := range b.files {
			base := path.Base(of.RelPath)
			stem := strings.TrimSuffix(strings.TrimSuffix(base, ".json"), ".yaml")
			if (stem != "common" && stem != "shared") || (asDef == "" && len(of.Defs) == 0) {
				continue
			}
			oext, oformat := ".yaml", model.YAML
			if strings.HasSuffix(base, ".yaml") {
				oext, oformat = ".json", model.JSON
			}
			cand := path.Join(path.Dir(of.RelPath), stem+oext)
			free := true
			for _, x := range b.files {
				if x.RelPath == cand {
					free = false
				}
			}
			if free && rapid.Bool().Draw(b.t, "twinfile") {
				dir, name, ext, format, twin = path.Dir(of.RelPath), stem, oext, oformat, true
				if dir == "." {
					dir = ""
				}
				b.modes["file.same_name_other_extension"]++
				break
			}
		}
	}
	if b.sameNames && !twin {
		// the same base name in several directories of one case (each reference must resolve
		// relative to its own document)
		for _, cand := range []string{"common", "shared"} {
			taken := false
			if asDef == "" && b.c.Avoid("names.collision_while_unsuffixed_in_progress") {
				// a file referenced as a whole gets the root type <Name>Json: two such files with one base
				// name nested in each other meet while the outer declaration is in progress (known finding)
				for _, of := range b.files {
					if strings.HasPrefix(path.Base(of.RelPath), cand+".") && len(of.Defs) == 0 {
						taken = true
					}
				}
			}
			for _, of := range b.files {
				// with extension-less references (--resolve-extension) whatever the extension: the
				// reference must stay unambiguous; otherwise common.json and common.yaml may sit
				// side by side and are two documents
				if of.RelPath == path.Join(dir, cand+ext) || (b.resExt && strings.TrimSuffix(strings.TrimSuffix(of.RelPath, ".json"), ".yaml") == path.Join(dir, cand)) {
					taken = true
				}

			}
			if !taken {
				name = cand
				b.modes["file.pooled_name"]++
				break
			}
		}
	}
	f := &model.File{RelPath: path.Join(dir, name+ext), Format: format, ID: fmt.Sprintf("https://example.com/f%d-%s", b.nfile, name)}
	f.Spelling.LegacyDefs = rapid.Bool().Draw(b.t, "legacydefs")
	if asDef != "" {
		f.Root = &model.Node{Kind: model.KObject, Props: []model.Prop{{Name: "zz", Node: &model.Node{Kind: model.KBoolean}}}}
		f.Defs = []model.Def{{Name: asDef, Node: node}}
	} else {
		f.Root = node
	}
	b.files = append(b.files, f)
	return f
}

// factor replaces chosen occurrences below root (living in file f) by
// references.
func (b *refBuilder) factor(f *model.File, root *model.Node, depth int, maxPick int) int {
	var slots []slot
	slotsOf(root, map[*model.Node]bool{}, &slots)
	byNode := map[*model.Node][]slot{}
	var order []*model.Node
	for _, s := range slots {
		n := *s.ptr
		if !factorable(b.c, n, s) {
			continue
		}
		if _, ok := byNode[n]; !ok {
			order = append(order, n)
		}
		byNode[n] = append(byNode[n], s)
	}
	if len(order) == 0 {
		return 0
	}
	k := rapid.IntRange(1, maxPick).Draw(b.t, "npick")
	picked := 0
	perm := rapid.Permutation(order).Draw(b.t, "pickorder")
	dir := path.Dir(f.RelPath)
	if dir == "." {
		dir = ""
	}
	for _, n := range perm {
		if picked >= k {
			break
		}
		// slots are recomputed: earlier steps may have moved subtrees behind a reference
		var cur []slot
		slotsOf(root, map[*model.Node]bool{}, &cur)
		var mine []slot
		okAll := true
		for _, s := range cur {
			if *s.ptr == n {
				mine = append(mine, s)
				if !factorable(b.c, n, s) {
					okAll = false
				}
			}
		}
		if !okAll || len(mine) == 0 {
			continue
		}
		picked++
		var ref string
		var home *model.File
		mode := rapid.IntRange(0, 3).Draw(b.t, "mode")
		if mode >= 2 && hasLocalRef(n) {
			mode = 0 // a subtree that already refers to this file's definitions stays in this file
		}
		if mode == 2 && n.Kind == model.KEnum && n.EnumType == "" {
			mode = 3 // the tool rejects (loudly) a file whose root is an untyped enum; not a transparency question
		}
		switch mode {
		case 0, 1: // same-file definition
			dn := b.defName(f, "X", depth, n)
			f.Defs = append(f.Defs, model.Def{Name: dn, Node: n})
			ref = "#/$defs/" + dn
			home = f
			b.modes["mode.same_file_def"]++
			// alias definitions: X<k>A1 = {"type": "object", "$ref": X<k>} (and a second hop);
			// referrers point at the last alias. A definition that is nothing but a
			// reference (no type keyword) is a known finding.
			if n.Kind == model.KObject && !n.Nullable {
				hops := rapid.SampledFrom([]int{0, 0, 0, 1, 1, 2}).Draw(b.t, "aliashops")
				for h := 1; h <= hops; h++ {
					an := fmt.Sprintf("%sA%d", dn, h)
					alias := &model.Node{Kind: model.KRef, Ref: ref, Target: n}
					if rapid.IntRange(0, 3).Draw(b.t, "purealias") == 0 && !b.c.Avoid("refs.pure_alias_definition") {
						b.modes["alias.pure"]++
					} else {
						if b.c.Avoid("refs.pure_alias_definition") {
							b.c.ExcludedMap()["refs.pure_alias_definition"]++
						}
						alias.Noise = []jv.KV{{K: "type", V: jv.StrV("object")}}
						b.modes["alias.typed"]++
					}
					f.Defs = append(f.Defs, model.Def{Name: an, Node: alias})
					ref = "#/$defs/" + an
				}
			}
		case 2: // root of another file
			home = b.newFile(dir, n, "")
			ref = b.spellFileRef(dir, home.RelPath)
			b.modes["mode.file_root"]++
		default: // definition inside another file
			dn := b.defName(nil, "Y", depth, n)
			home = b.newFile(dir, n, dn)
			ref = b.spellFileRef(dir, home.RelPath) + "#/$defs/" + dn
			b.modes["mode.file_def"]++
		}
		if len(mine) > 1 {
			b.modes["referrers.multiple"]++
		}
		for _, s := range mine {
			*s.ptr = &model.Node{Kind: model.KRef, Ref: ref, Target: n}
		}
		externalBranch := home != f && len(mine) > 0 && mine[0].inBranch
		if externalBranch && b.c.Avoid("branches.external_branch_with_local_refs") {
			// known finding: references local to the other document inside a branch taken from it
			b.c.ExcludedMap()["branches.external_branch_with_local_refs"]++
		} else if depth < 2 && n.Kind == model.KObject && rapid.IntRange(0, 9).Draw(b.t, "recurse") < 7 {
			before := b.nfile
			if b.factor(home, n, depth+1, 2) > 0 && home != f && b.nfile > before {
				b.modes["hops.two_files"]++
			}
		}
	}
	return picked
}

// hasLocalRef reports whether the subtree contains a same-file reference.
func hasLocalRef(n *model.Node) bool {
	found := false
	model.Walk(n, func(x *model.Node) {
		// same-file references, and file references spelled relative to this file's directory,
		// would dangle if the subtree moved to another document
		if x.Kind == model.KRef && (strings.HasPrefix(x.Ref, "#") || !strings.Contains(x.Ref, gen.RootToken)) {
			found = true
		}
	})
	return found
}

// forceChain builds a two-hop chain main -> dirA/extA -> dirA/dirB/extB where
// the second reference is written relative to the intermediate file.
func (b *refBuilder) forceChain(R *model.File, mainDir string) int {
	for i := len(R.Root.Props) - 1; i >= 0; i-- {
		N := R.Root.Props[i].Node
		if N.Kind != model.KObject || N.Nullable || N.Default != nil || len(N.Props) == 0 {
			continue
		}
		for j := len(N.Props) - 1; j >= 0; j-- {
			M := N.Props[j].Node
			if M.Kind != model.KObject || M.Nullable || M.Default != nil || len(M.Props) == 0 || hasLocalRef(M) {
				continue
			}
			b.nfile += 2
			dirA := path.Join(mainDir, fmt.Sprintf("ca%d", b.nfile))
			dirB := path.Join(dirA, "deep")
			if rapid.Bool().Draw(b.t, "chainup") {
				dirB = mainDir // second hop goes back up, relative to the intermediate file
			}
			fa := &model.File{RelPath: path.Join(dirA, fmt.Sprintf("exta%d.json", b.nfile)), ID: fmt.Sprintf("https://example.com/exta%d", b.nfile), Root: N}
			fb := &model.File{RelPath: path.Join(dirB, fmt.Sprintf("extb%d.json", b.nfile)), ID: fmt.Sprintf("https://example.com/extb%d", b.nfile), Root: M}
			N.Props[j].Node = &model.Node{Kind: model.KRef, Ref: relPath(dirA, fb.RelPath), Target: M}
			R.Root.Props[i].Node = &model.Node{Kind: model.KRef, Ref: relPath(mainDir, fa.RelPath), Target: N}
			b.files = append(b.files, fa, fb)
			b.modes["hops.forced_chain"]++
			return 1
		}
	}
	return 0
}

func inlineProfile(c *core.Ctx) *sgen.Profile {
	return &sgen.Profile{
		MaxDepth: 3, MinProps: 2, MaxProps: 6, MaxDefs: 0, ArrayDepth: 2,
		WString: 4, WInteger: 3, WNumber: 3, WBoolean: 1, WObject: 6, WArray: 4, WEnum: 2,
		PConstraint: 0.45, PNullable: 0.15, PRequired: 0.5, MixedEnums: true,
		Avoid: c.Avoid, Excluded: c.ExcludedMap(), Sat: docs.Satisfiable,
	}
}

// sharedTypeCheck: root-level referrers of one definition must be fields of
// one and the same Go type, declared exactly once.
func sharedTypeCheck(src string, rootType string, groups map[string][]string) []string {
	fset := token.NewFileSet()
	f, err := parser.ParseFile(fset, "gen.go", src, parser.SkipObjectResolution)
	if err != nil {
		return nil
	}
	decls := map[string]int{}
	fieldType := map[string]string{}
	for _, d := range f.Decls {
		gd, ok := d.(*ast.GenDecl)
		if !ok || gd.Tok != token.TYPE {
			continue
		}
		for _, s := range gd.Specs {
			ts := s.(*ast.TypeSpec)
			decls[ts.Name.Name]++
			if ts.Name.Name != rootType {
				continue
			}
			st, ok := ts.Type.(*ast.StructType)
			if !ok {
				continue
			}
			for _, fld := range st.Fields.List {
				if fld.Tag == nil {
					continue
				}
				tag := strings.Trim(fld.Tag.Value, "`")
				name, ok := tagNameOf(tag, "json")
				if !ok {
					continue
				}
				fieldType[name] = strings.TrimPrefix(exprString(fld.Type), "*")
			}
		}
	}
	var probs []string
	for def, props := range groups {
		if len(props) < 2 {
			continue
		}
		t0 := fieldType[props[0]]
		for _, p := range props[1:] {
			if fieldType[p] != t0 {
				probs = append(probs, fmt.Sprintf("referrers %q and %q of %s have different Go types %q vs %q", props[0], p, def, t0, fieldType[p]))
			}
		}
		base := strings.TrimPrefix(t0, "[]")
		if decls[base] > 1 {
			probs = append(probs, fmt.Sprintf("type %s of %s declared %d times", base, def, decls[base]))
		}
	}
	return probs
}

func exprString(e ast.Expr) string {
	switch x := e.(type) {
	case *ast.Ident:
		return x.Name
	case *ast.StarExpr:
		return "*" + exprString(x.X)
	case *ast.ArrayType:
		return "[]" + exprString(x.Elt)
	case *ast.SelectorExpr:
		return exprString(x.X) + "." + x.Sel.Name
	case *ast.MapType:
		return "map[" + exprString(x.Key) + "]" + exprString(x.Value)
	case *ast.InterfaceType:
		return "interface{}"
	}
	return fmt.Sprintf("%T", e)
}

func tagNameOf(tag, key string) (string, bool) {
	i := strings.Index(tag, key+`:"`)
	if i < 0 {
		return "", false
	}
	rest := tag[i+len(key)+2:]
	j := strings.IndexByte(rest, '"')
	if j < 0 {
		return "", false
	}
	v := rest[:j]
	if k := strings.IndexByte(v, ','); k >= 0 {
		v = v[:k]
	}
	return v, true
}

// pairCase: the same documents against the referencing and the inline program.
type pairCase struct {
	ref, inline *RunCase
	groups      map[string][]string
	rootType    string
	la, lb      string // names of the two variants in messages
}

func (pc *pairCase) names() (string, string) {
	if pc.la == "" {
		return "with $ref", "inline"
	}
	return pc.la, pc.lb
}

func TestC10(t *testing.T) {
	c := core.New(t, "C10")
	defer c.Finish()
	c.Rule("metamorphic pairs: an inline schema S from the structural grammar and a variant in which 1-4 subschema occurrences (objects, constrained primitives, enums, arrays; some occurring at 2-3 places) are factored into #/$defs/X, #/definitions/X, the root of another file or a definition inside another file (same/sub/parent directory, relative, ./, absolute and file:// spellings, .json/.yaml, with and without extension under --resolve-extension, recursively up to two hops relative to the intermediate file); both programs run the same valid documents and single-fault mutants: verdicts must agree with each other and with the oracle and re-marshalled values must be equal; root-level referrers of one definition must share one Go type declared once. Recursive graphs (self reference through a property, through array items, through '#', mutual recursion of 2-3 definitions, across files) are generated through the real CLI (a crash or timeout is decisive) and must accept and round-trip documents of nesting depth 0..200; non-trivial = pair with an external file, >=2 referrers or a two-hop chain, or a recursive case; distinct by sha256(files,document)")
	c.Assume("references carry no sibling keywords; nullable and defaulted occurrences stay inline", "R1-R4", "reference oracle section 1.4")
	eval := func(r *core.Replay) (bool, string, error) { return evalC10Replay(c, r) }
	if c.RunReplay(eval) {
		return
	}
	c.Regressions(eval)
	defer gen.CleanupCLI()

	prof := inlineProfile(c)
	o := docOpts(c)
	modes := map[string]int{}
	var pairs []*pairCase
	plan := &docPlan{NValid: 4, Kinds: map[string]bool{"type": true, "required": true, "numeric": true, "string": true, "array": true, "enum": true}, MaxMut: 40, Remarshal: true}
	res := c.Rapid("pairs", c.N(120, 2500), 0, func(rt *rapid.T) {
		S := prof.File(rt, "prog.json")
		// duplicate one factorable occurrence at 1-2 more root properties (shared node)
		var sl []slot
		slotsOf(S.Root, map[*model.Node]bool{}, &sl)
		var cands []*model.Node
		for _, s := range sl {
			if factorable(c, *s.ptr, s) && !s.inItem {
				cands = append(cands, *s.ptr)
			}
		}
		if len(cands) > 0 && rapid.Bool().Draw(rt, "dup") {
			n := rapid.SampledFrom(cands).Draw(rt, "dupnode")
			for i := 0; i < rapid.IntRange(1, 2).Draw(rt, "ndup"); i++ {
				S.Root.Props = append(S.Root.Props, model.Prop{Name: fmt.Sprintf("dup%d", i), Node: n})
			}
		}
		wantChain := rapid.IntRange(0, 9).Draw(rt, "forcechain") < 4
		if wantChain {
			// make sure S has an object inside an object at root level
			ctx := &sgen.Ctx{P: prof}
			outer := ctx.Object(rt, 2)
			outer.Nullable = false
			inner := ctx.Object(rt, 2)
			inner.Nullable = false
			outer.Props = append(outer.Props, model.Prop{Name: "inner", Node: inner})
			outer.Required = append(outer.Required, "inner")
			S.Root.Props = append(S.Root.Props, model.Prop{Name: "chain", Node: outer})
			S.Root.Required = append(S.Root.Required, "chain")
		}
		// two composition lists whose first branches become references to definitions of the
		// same name in two different documents (local and in another file)
		wantBranchRefs := rapid.IntRange(0, 9).Draw(rt, "branchrefs") < 3
		// variant: both lists start with THE SAME definition and add different properties (what one
		// list adds must not show up in the other)
		sharedBase := false
		brKind := model.KAllOf
		brNames := []string{"zalpha", "zbeta"}
		if wantBranchRefs {
			if rapid.Bool().Draw(rt, "branchrefsanyof") {
				brKind = model.KAnyOf
			}
			if rapid.Bool().Draw(rt, "branchrefsswap") {
				brNames = []string{"zbeta", "zalpha"}
			}
			kinds := rapid.Permutation([]model.Kind{model.KString, model.KInteger, model.KBoolean}).Draw(rt, "branchrefkinds")
			sharedBase = brKind == model.KAllOf && rapid.IntRange(0, 2).Draw(rt, "sharedbase") == 0
			for i, pn := range brNames {
				base := &model.Node{Kind: model.KObject, Props: []model.Prop{
					{Name: "id", Node: &model.Node{Kind: kinds[i]}},
					{Name: fmt.Sprintf("only%d", i), Node: &model.Node{Kind: kinds[2]}},
				}, Required: []string{"id", fmt.Sprintf("only%d", i)}[:1+i]}
				extra := &model.Node{Kind: model.KObject, Props: []model.Prop{{Name: fmt.Sprintf("extra%d", i), Node: &model.Node{Kind: model.KBoolean}}}, Required: []string{fmt.Sprintf("extra%d", i)}}
				if sharedBase {
					nine := 9.0
					base = &model.Node{Kind: model.KObject, Props: []model.Prop{{Name: "name", Node: &model.Node{Kind: model.KString}}}, Required: []string{"name"}}
					if i == 0 {
						extra = &model.Node{Kind: model.KObject, Props: []model.Prop{{Name: "lives", Node: &model.Node{Kind: model.KInteger, Maximum: &nine}}}, Required: []string{"lives"}}
					} else {
						extra = &model.Node{Kind: model.KObject, Props: []model.Prop{{Name: "barks", Node: &model.Node{Kind: model.KBoolean}}}}
					}
				}
				S.Root.Props = append(S.Root.Props, model.Prop{Name: pn, Node: &model.Node{Kind: brKind, Branches: []*model.Node{base, extra}}})
				S.Root.Required = append(S.Root.Required, pn)
			}
		}
		// two subschemas that are equal except for their numeric bounds and that become definitions of
		// ONE name (in the main document and in another one, or under two spellings of the name in
		// the main document): each referrer keeps its own range
		wantSameNameBounds := rapid.IntRange(0, 9).Draw(rt, "samenamebounds") < 2
		if wantSameNameBounds {
			for i, lim := range [][2]float64{{1, 10}, {0, 1000}} {
				lo, hi := lim[0], lim[1]
				q := &model.Node{Kind: model.KObject, Props: []model.Prop{{Name: "amount", Node: &model.Node{Kind: model.KInteger, Minimum: &lo, Maximum: &hi}}, {Name: "unit", Node: &model.Node{Kind: model.KString}}}, Required: []string{"amount"}}
				pn := []string{"zqorder", "zqstock"}[i]
				S.Root.Props = append(S.Root.Props, model.Prop{Name: pn, Node: q})
				S.Root.Required = append(S.Root.Required, pn)
			}
		}
		cfg := baseConfig()
		rb := &refBuilder{c: c, t: rt, modes: modes, sameNames: rapid.Bool().Draw(rt, "samedefnames")}
		if rapid.IntRange(0, 2).Draw(rt, "resext") == 0 {
			cfg.ResolveExtensions = []string{".json", ".yaml"}
			rb.resExt = true
		}
		mainDir := ""
		if rapid.Bool().Draw(rt, "maindir") {
			mainDir = "m"
		}
		R := &model.File{RelPath: path.Join(mainDir, "prog.json"), ID: S.ID}
		R.Root = model.Clone(S.Root)
		R.Spelling.LegacyDefs = rapid.Bool().Draw(rt, "mainlegacy")
		rb.files = []*model.File{R}
		forced := 0
		if wantChain {
			forced = rb.forceChain(R, mainDir)
		}
		if wantSameNameBounds {
			twoSpellings := rapid.Bool().Draw(rt, "samenametwospellings")
			for i, pn := range []string{"zqorder", "zqstock"} {
				var slotp **model.Node
				for k := range R.Root.Props {
					if R.Root.Props[k].Name == pn {
						slotp = &R.Root.Props[k].Node
					}
				}
				q := *slotp
				switch {
				case i == 0:
					R.Defs = append(R.Defs, model.Def{Name: "Quantity", Node: q})
					*slotp = &model.Node{Kind: model.KRef, Ref: "#/$defs/Quantity", Target: q}
				case twoSpellings:
					R.Defs = append(R.Defs, model.Def{Name: "quantity", Node: q})
					*slotp = &model.Node{Kind: model.KRef, Ref: "#/$defs/quantity", Target: q}
				default:
					home := rb.newFile(mainDir, q, "Quantity")
					*slotp = &model.Node{Kind: model.KRef, Ref: rb.spellFileRef(mainDir, home.RelPath) + "#/$defs/Quantity", Target: q}
				}
			}
			modes["samename.bounds_only"]++
			forced++
		}
		if wantBranchRefs {
			for i, pn := range brNames {
				comp := R.Root.Prop(pn)
				base := comp.Branches[0]
				if i == 0 {
					R.Defs = append(R.Defs, model.Def{Name: "Base", Node: base})
					comp.Branches[0] = &model.Node{Kind: model.KRef, Ref: "#/$defs/Base", Target: base}
				} else if sharedBase {
					comp.Branches[0] = &model.Node{Kind: model.KRef, Ref: "#/$defs/Base", Target: R.Defs[len(R.Defs)-1].Node}
					modes["branchrefs.shared_first_branch"]++
				} else {
					home := rb.newFile(mainDir, base, "Base")
					comp.Branches[0] = &model.Node{Kind: model.KRef, Ref: rb.spellFileRef(mainDir, home.RelPath) + "#/$defs/Base", Target: base}
				}
			}
			modes["branchrefs.same_name_two_documents."+brKind.String()]++
			forced++
		}
		n := rb.factor(R, R.Root, 0, 4) + forced
		if n == 0 {
			c.Count("pair.nothing_to_factor")
			return
		}
		// a node shared between two places can end up inline in one document while a nested
		// factoring step, run for its other occurrence, has put a reference local to another
		// document inside it: such a case is my construction error, not the tool's
		dangling := false
		for _, rf := range rb.files {
			have := map[string]bool{}
			for _, d := range rf.Defs {
				have[d.Name] = true
			}
			chk := func(x *model.Node) {
				if x.Kind == model.KRef && strings.HasPrefix(x.Ref, "#/$defs/") && !have[strings.TrimPrefix(x.Ref, "#/$defs/")] {
					dangling = true
				}
			}
			model.Walk(rf.Root, chk)
			for _, d := range rf.Defs {
				model.Walk(d.Node, chk)
			}
		}
		if dangling {
			c.Count("pair.discarded_dangling_local_ref")
			return
		}
		rootType := progRoot
		if rb.resExt {
			rootType = "Prog"
		}
		// a third of the cases: documents that state their definitions under both container
		// keywords, the legacy one with an out-of-date copy that no pointer names
		if rapid.IntRange(0, 2).Draw(rt, "stalecopies") == 0 {
			for _, rf := range rb.files {
				if len(rf.Defs) > 0 && !rf.Spelling.LegacyDefs && rapid.Bool().Draw(rt, "stalehere") {
					rf.Spelling.BothDefs, rf.Spelling.StaleLegacy = true, true
					modes["defs.stale_legacy_copy"]++
				}
			}
		}
		inlineCase := caseOf(cfg, []string{S.RelPath}, S)
		refCase := caseOf(cfg, []string{R.RelPath}, rb.files...)
		jobs := buildJobs(rt, c, S.Root, rootType, plan, o, inlineCase)
		if wantBranchRefs && sharedBase {
			// what the other list adds is an undeclared key here: any value must be let through
			oo := *o
			oo.AllProps = true
			if v, ok := docs.Valid(rt, S.Root, &oo); ok {
				for _, pn := range brNames {
					if inner, has := v.Get(pn); has && inner.K == jv.Obj {
						for _, foreign := range []jv.KV{{K: "lives", V: jv.IntV(12)}, {K: "barks", V: jv.StrV("loud")}} {
							if inner.Has(foreign.K) {
								continue
							}
							nd := v.Set(pn, inner.Set(foreign.K, foreign.V))
							if oracle.Accepts(S.Root, nd) {
								jobs = append(jobs, core.Job{Type: rootType, Op: "json", Doc: string(nd.Marshal()), Expect: "accept", Label: "foreign-key:" + foreign.K})
								c.Count("doc.foreign_key")
							}
						}
					}
				}
			}
		}
		// referrer groups at root level
		groups := map[string][]string{}
		for _, p := range R.Root.Props {
			if p.Node.Kind == model.KRef {
				groups[p.Node.Ref] = append(groups[p.Node.Ref], p.Name)
			}
		}
		nt := len(rb.files) > 1
		for _, g := range groups {
			if len(g) > 1 {
				nt = true
			}
		}
		if nt {
			for _, j := range jobs {
				c.NonTrivial(refCase.Files[0].Text, fmt.Sprint(len(refCase.Files)), j.Doc)
			}
		}
		pc := &pairCase{ref: &RunCase{Case: refCase, Jobs: jobs}, inline: &RunCase{Case: inlineCase, Jobs: jobs}, groups: groups, rootType: rootType}
		pairs = append(pairs, pc)
		c.Sample(map[string]any{"ref_variant": describeCase(refCase), "inline": describeCase(inlineCase), "n_jobs": len(jobs)})
	})
	if res.Failed {
		c.Infra("pair generation failed: " + core.Clip(res.Msg, 600))
		return
	}
	for k, v := range modes {
		c.CountN(k, v)
	}
	seen := map[string]bool{}
	report := func(pc *pairCase, j *core.Job, key, msg string) {
		if c.Survey() {
			c.SurveyAdd(keyClass(key), msg)
			c.SurveyReplay(keyClass(key), &core.Replay{Check: "pair", Cases: []*gen.Case{pc.ref.Case, pc.inline.Case}, Jobs: jobsOf(j), Observed: msg, Note: pc.rootType})
			return
		}
		if seen[keyClass(key)] {
			return
		}
		seen[keyClass(key)] = true
		c.Violation(keyClass(key), msg, &core.Replay{Check: "pair", Cases: []*gen.Case{pc.ref.Case, pc.inline.Case}, Jobs: jobsOf(j), Observed: msg, Note: pc.rootType, Expected: "same verdict and value with the reference and with the inline copy"})
	}
	for lo := 0; lo < len(pairs); lo += 80 {
		hi := lo + 80
		if hi > len(pairs) {
			hi = len(pairs)
		}
		if err := evalPairs(c, pairs[lo:hi], report); err != nil {
			c.Infra(err.Error())
			return
		}
	}
	c.Extra("pairs", len(pairs))

	// recursive graphs
	runRecursive(c)
}

func jobsOf(j *core.Job) []core.Job {
	if j == nil {
		return nil
	}
	return []core.Job{*j}
}

// evalPairs builds both programs of every pair in one batch and compares.
func evalPairs(c *core.Ctx, pairs []*pairCase, report func(pc *pairCase, j *core.Job, key, msg string)) error {
	var progs []*batch.Program
	type built struct {
		pc         *pairCase
		pref, pinl *batch.Program
		refSrc     string
		refErr     string
		inlErr     string
	}
	var bs []*built
	for i, pc := range pairs {
		b := &built{pc: pc}
		rr := gen.Run(pc.ref.Case)
		ri := gen.Run(pc.inline.Case)
		if !ri.OK() {
			if c != nil {
				c.Count("pair.inline_rejected")
			}
			continue
		}
		if !rr.OK() {
			b.refErr = rr.Err + rr.Panic
			na, nb := pc.names()
			report(pc, nil, "variant-rejected", "the "+nb+" variant generates but the "+na+" variant fails: "+core.Clip(b.refErr, 300))
			continue
		}
		b.refSrc = rr.Sources["-"]
		b.pref = batch.SinglePkg(fmt.Sprintf("r%05d", i), rr.Sources["-"])
		b.pinl = batch.SinglePkg(fmt.Sprintf("i%05d", i), ri.Sources["-"])
		for k, j := range pc.ref.Jobs {
			jr, ji := j, j
			jr.ID = fmt.Sprintf("%s.%d", b.pref.Name, k)
			ji.ID = fmt.Sprintf("%s.%d", b.pinl.Name, k)
			b.pref.Jobs = append(b.pref.Jobs, jr)
			b.pinl.Jobs = append(b.pinl.Jobs, ji)
		}
		progs = append(progs, b.pref, b.pinl)
		bs = append(bs, b)
	}
	results, _, err := batch.Run(progs, 12)
	if err != nil {
		return err
	}
	for _, b := range bs {
		if b.pinl.BuildErr != "" {
			if c != nil {
				c.Count("pair.inline_buildfail")
			}
			continue
		}
		if b.pref.BuildErr != "" {
			na, nb := b.pc.names()
			report(b.pc, nil, "variant-buildfail", "the "+nb+" program builds but the "+na+" variant does not: "+core.Clip(b.pref.BuildErr, 300))
			continue
		}
		if c != nil {
			c.Program(2)
		}
		if probs := sharedTypeCheck(b.refSrc, b.pc.rootType, b.pc.groups); len(probs) > 0 {
			report(b.pc, nil, "shared-type", strings.Join(probs, "; "))
		}
		for k := range b.pref.Jobs {
			jr, ji := &b.pref.Jobs[k], &b.pinl.Jobs[k]
			rr, ri := results[jr.ID], results[ji.ID]
			if rr == nil || ri == nil {
				return fmt.Errorf("missing result")
			}
			if rr.Skipped != "" || ri.Skipped != "" {
				if c != nil {
					c.Count("job.skipped")
				}
				continue
			}
			if c != nil {
				c.Eval(1)
			}
			na, nb := b.pc.names()
			if rr.Accepted() != ri.Accepted() {
				report(b.pc, jr, "verdict-differs:"+jr.Label, fmt.Sprintf("verdict differs (%s): %s %s, %s %s; doc %s", jr.Label, na, rr.ErrText(), nb, ri.ErrText(), core.Clip(jr.Doc, 200)))
				continue
			}
			if rr.Accepted() && rr.Remarshal != nil && ri.Remarshal != nil {
				a, e1 := jv.Parse([]byte(*rr.Remarshal))
				bb, e2 := jv.Parse([]byte(*ri.Remarshal))
				if e1 == nil && e2 == nil && !jv.Equal(a, bb) {
					report(b.pc, jr, "value-differs:"+jr.Label, fmt.Sprintf("decoded value differs: %s %s, %s %s", na, core.Clip(*rr.Remarshal, 200), nb, core.Clip(*ri.Remarshal, 200)))
					continue
				}
			}
			if key, msg := stdJudge(jr, rr); key != "" {
				report(b.pc, jr, "oracle:"+key, na+": "+msg)
			}
		}
	}
	return nil
}

func evalC10Replay(c *core.Ctx, r *core.Replay) (bool, string, error) {
	switch r.Check {
	case "pair":
		if len(r.Cases) != 2 {
			return false, "", fmt.Errorf("pair replay needs two cases")
		}
		pc := &pairCase{ref: &RunCase{Case: r.Cases[0], Jobs: r.Jobs}, inline: &RunCase{Case: r.Cases[1], Jobs: r.Jobs}, rootType: r.Note, groups: map[string][]string{}}
		var msgs []string
		err := evalPairs(nil, []*pairCase{pc}, func(_ *pairCase, _ *core.Job, key, msg string) { msgs = append(msgs, msg) })
		return len(msgs) > 0, strings.Join(msgs, "\n"), err
	case "recursive":
		if strings.Contains(r.Note, "short-limit") {
			old := recursiveLimit
			recursiveLimit = 15 * time.Second
			defer func() { recursiveLimit = old }()
		}
		failed, msg, err := evalRecursive(r.Case, r.Jobs)
		return failed, msg, err
	}
	return false, "", nil
}

// ---------------------------------------------------------------------------
// recursive reference graphs

func nestDoc(kind string, depth int) jv.V {
	switch kind {
	case "prop":
		v := jv.ObjV(jv.Field("value", jv.IntV(int64(depth))))
		for i := depth - 1; i >= 0; i-- {
			v = jv.ObjV(jv.Field("value", jv.IntV(int64(i))), jv.Field("next", v))
		}
		return v
	case "items":
		v := jv.ObjV(jv.Field("name", jv.StrV("leaf")))
		for i := depth - 1; i >= 0; i-- {
			v = jv.ObjV(jv.Field("name", jv.StrV(fmt.Sprintf("n%d", i))), jv.Field("children", jv.ArrV(v, jv.ObjV(jv.Field("name", jv.StrV("sib"))))))
		}
		return v
	case "mutual":
		// level k is an A when k is even, a B when odd
		var v jv.V
		if depth%2 == 0 {
			v = jv.ObjV(jv.Field("a", jv.IntV(1)))
		} else {
			v = jv.ObjV(jv.Field("s", jv.StrV("x")))
		}
		for k := depth - 1; k >= 0; k-- {
			if k%2 == 0 {
				v = jv.ObjV(jv.Field("a", jv.IntV(int64(k))), jv.Field("b", v))
			} else {
				v = jv.ObjV(jv.Field("s", jv.StrV("x")), jv.Field("a", v))
			}
		}
		return v
	}
	return jv.ObjV()
}

type recCase struct {
	name  string
	files []gen.FileText
	typ   string
	docs  func(depth int) jv.V
	wrap  func(jv.V) jv.V // set when the recursion is the value/next chain: enables invalid deep documents
}

// badChain: a value/next chain of the given depth whose level `at` lacks the
// required "value" (or carries a string there).
func badChain(depth, at int, wrongType bool) jv.V {
	mk := func(i int) jv.V {
		if i == at {
			if wrongType {
				return jv.ObjV(jv.Field("value", jv.StrV("x")))
			}
			return jv.ObjV()
		}
		return jv.ObjV(jv.Field("value", jv.IntV(int64(i))))
	}
	v := mk(depth)
	for i := depth - 1; i >= 0; i-- {
		n := mk(i)
		n.O = append(n.O, jv.KV{K: "next", V: v})
		v = n
	}
	return v
}

// anyOfItemsCycle: two definitions that refer to each other through
// array-items anyOf lists and have different property names.
func anyOfItemsCycle() *recCase {
	branches := `{"anyOf":[{"$ref":"#/definitions/Foo"},{"$ref":"#/definitions/Bar"}]}`
	text := `{"$id":"https://example.com/prog","definitions":{"Foo":{"type":"object","properties":{"fooItems":{"type":"array","items":` + branches + `}}},` +
		`"Bar":{"type":"object","properties":{"barItems":{"type":"array","items":` + branches + `}}}},"type":"object","properties":{"q":{"type":"array","items":` + branches + `}}}`
	return &recCase{name: "anyof.items.mutual", files: []gen.FileText{{RelPath: "prog.json", Text: text}}, typ: "ProgJson",
		docs: func(d int) jv.V {
			// the innermost element has no members: an empty optional array would be
			// dropped by omitempty when the value is marshalled again
			v := jv.ObjV()
			for i := 0; i < d; i++ {
				if i%2 == 0 {
					v = jv.ObjV(jv.Field("barItems", jv.ArrV(v)))
				} else {
					v = jv.ObjV(jv.Field("fooItems", jv.ArrV(v)))
				}
			}
			return jv.ObjV(jv.Field("q", jv.ArrV(v)))
		}}
}

func recursiveCases(t *rapid.T, kind int) *recCase {
	obj := func(props string, extra string) string {
		return `{"type":"object","properties":{` + props + `}` + extra + `}`
	}
	defsKw := rapid.SampledFrom([]string{"$defs", "definitions"}).Draw(t, "defskw")
	refp := "#/" + defsKw + "/"
	switch kind {
	case 6: // a sibling file (other $id) whose root refers to itself through "#"
		a := `{"$id":"https://example.com/prog","type":"object","properties":{"list":{"$ref":"other.json"}},"required":["list"]}`
		b := `{"$id":"https://example.com/other","type":"object","properties":{"value":{"type":"integer"},"next":{"$ref":"#"}},"required":["value"]}`
		return &recCase{name: "cross.hash", files: []gen.FileText{{RelPath: "prog.json", Text: a}, {RelPath: "other.json", Text: b}}, typ: "ProgJson",
			docs: func(d int) jv.V { return jv.ObjV(jv.Field("list", nestDoc("prop", d))) },
			wrap: func(v jv.V) jv.V { return jv.ObjV(jv.Field("list", v)) }}
	case 8: // self reference through a single-branch allOf (the idiom that attaches a description to a reference)
		text := `{"$id":"https://example.com/prog","type":"object","properties":{"head":{"$ref":"` + refp + `Node"}},"` + defsKw + `":{"Node":` +
			obj(`"value":{"type":"integer"},"next":{"description":"the rest","allOf":[{"$ref":"`+refp+`Node"}]}`, `,"required":["value"]`) + `}}`
		return &recCase{name: "self.allof.single", files: []gen.FileText{{RelPath: "prog.json", Text: text}}, typ: "ProgJson",
			docs: func(d int) jv.V { return jv.ObjV(jv.Field("head", nestDoc("prop", d))) },
			wrap: func(v jv.V) jv.V { return jv.ObjV(jv.Field("head", v)) }}
	case 0: // self reference through a property
		text := `{"$id":"https://example.com/prog","type":"object","properties":{"head":{"$ref":"` + refp + `Node"}},"` + defsKw + `":{"Node":` +
			obj(`"value":{"type":"integer"},"next":{"$ref":"`+refp+`Node"}`, `,"required":["value"]`) + `}}`
		return &recCase{name: "self.property", files: []gen.FileText{{RelPath: "prog.json", Text: text}}, typ: "ProgJson",
			docs: func(d int) jv.V { return jv.ObjV(jv.Field("head", nestDoc("prop", d))) },
			wrap: func(v jv.V) jv.V { return jv.ObjV(jv.Field("head", v)) }}
	case 1: // through array items
		text := `{"$id":"https://example.com/prog","type":"object","properties":{"tree":{"$ref":"` + refp + `Tree"}},"` + defsKw + `":{"Tree":` +
			obj(`"name":{"type":"string"},"children":{"type":"array","items":{"$ref":"`+refp+`Tree"}}`, `,"required":["name"]`) + `}}`
		return &recCase{name: "self.items", files: []gen.FileText{{RelPath: "prog.json", Text: text}}, typ: "ProgJson",
			docs: func(d int) jv.V { return jv.ObjV(jv.Field("tree", nestDoc("items", d))) }}
	case 2: // through "#"
		text := `{"$id":"https://example.com/prog","type":"object","properties":{"value":{"type":"integer"},"next":{"$ref":"#"}},"required":["value"]}`
		return &recCase{name: "self.hash", files: []gen.FileText{{RelPath: "prog.json", Text: text}}, typ: "ProgJson",
			docs: func(d int) jv.V { return nestDoc("prop", d) }, wrap: func(v jv.V) jv.V { return v }}
	case 3: // mutual recursion of two definitions
		text := `{"$id":"https://example.com/prog","type":"object","properties":{"root":{"$ref":"` + refp + `A"}},"` + defsKw + `":{"A":` +
			obj(`"a":{"type":"integer"},"b":{"$ref":"`+refp+`B"}`, `,"required":["a"]`) + `,"B":` + obj(`"s":{"type":"string"},"a":{"$ref":"`+refp+`A"}`, `,"required":["s"]`) + `}}`
		return &recCase{name: "mutual.two", files: []gen.FileText{{RelPath: "prog.json", Text: text}}, typ: "ProgJson",
			docs: func(d int) jv.V { return jv.ObjV(jv.Field("root", nestDoc("mutual", d))) }}
	case 4: // mutual recursion of three definitions
		text := `{"$id":"https://example.com/prog","type":"object","properties":{"root":{"$ref":"` + refp + `A"}},"` + defsKw + `":{"A":` +
			obj(`"value":{"type":"integer"},"next":{"$ref":"`+refp+`B"}`, `,"required":["value"]`) + `,"B":` + obj(`"value":{"type":"integer"},"next":{"$ref":"`+refp+`C"}`, `,"required":["value"]`) +
			`,"C":` + obj(`"value":{"type":"integer"},"next":{"$ref":"`+refp+`A"}`, `,"required":["value"]`) + `}}`
		return &recCase{name: "mutual.three", files: []gen.FileText{{RelPath: "prog.json", Text: text}}, typ: "ProgJson",
			docs: func(d int) jv.V { return jv.ObjV(jv.Field("root", nestDoc("prop", d))) },
			wrap: func(v jv.V) jv.V { return jv.ObjV(jv.Field("root", v)) }}
	default: // across files
		a := `{"$id":"https://example.com/prog","type":"object","properties":{"value":{"type":"integer"},"next":{"$ref":"other.json"}},"required":["value"]}`
		b := `{"$id":"https://example.com/other","type":"object","properties":{"value":{"type":"integer"},"next":{"$ref":"prog.json"}},"required":["value"]}`
		return &recCase{name: "cross.file", files: []gen.FileText{{RelPath: "prog.json", Text: a}, {RelPath: "other.json", Text: b}}, typ: "ProgJson",
			docs: func(d int) jv.V { return nestDoc("prop", d) }, wrap: func(v jv.V) jv.V { return v }}
	}
}

// evalRecursive: generation through the real CLI must terminate with status 0
// and the type must accept and round-trip the nested documents.
// recursiveLimit is the time allowed for generating a small recursive schema
// (normally milliseconds); witnesses of a known non-termination use a short one.
var recursiveLimit = 60 * time.Second

func evalRecursive(cs *gen.Case, jobs []core.Job) (bool, string, error) {
	res, err := gen.RunCLI(cs, nil, nil, recursiveLimit, false)
	if err != nil {
		return false, "", err
	}
	if res.TimedOut {
		return true, fmt.Sprintf("generation of a recursive schema did not terminate within %v", recursiveLimit), nil
	}
	if res.Exit != 0 {
		return true, fmt.Sprintf("generation of a recursive schema failed (exit %d): %s", res.Exit, core.Clip(res.Stderr, 400)), nil
	}
	p := batch.SinglePkg("rec0", res.Stdout)
	for k, j := range jobs {
		j.ID = fmt.Sprintf("rec0.%d", k)
		p.Jobs = append(p.Jobs, j)
	}
	results, _, err := batch.Run([]*batch.Program{p}, 4)
	if err != nil {
		return false, "", err
	}
	if p.BuildErr != "" {
		return true, "code generated for a recursive schema does not build: " + core.Clip(p.BuildErr, 400), nil
	}
	for k := range p.Jobs {
		j := &p.Jobs[k]
		r := results[j.ID]
		if r == nil {
			return false, "", fmt.Errorf("no result")
		}
		if r.Skipped != "" {
			return false, "", fmt.Errorf("job skipped: %s", r.Skipped)
		}
		if j.Expect == "reject" {
			if r.Panic != nil || r.Crash != "" {
				return true, fmt.Sprintf("recursive type panics on an invalid nested document (%s): %s", j.Label, r.ErrText()), nil
			}
			if r.Err == nil {
				return true, fmt.Sprintf("recursive type accepts an invalid nested document (%s): %s", j.Label, core.Clip(j.Doc, 200)), nil
			}
			continue
		}
		if !r.Accepted() {
			return true, fmt.Sprintf("recursive type rejects a valid nested document (%s): %s", j.Label, r.ErrText()), nil
		}
		if r.Remarshal == nil {
			return true, "recursive value cannot be marshalled (" + j.Label + ")", nil
		}
		a, e1 := jv.Parse([]byte(j.Doc))
		b, e2 := jv.Parse([]byte(*r.Remarshal))
		if e1 != nil || e2 != nil || !jv.Equal(a, b) {
			return true, fmt.Sprintf("recursive document does not round-trip (%s): %s", j.Label, core.Clip(*r.Remarshal, 200)), nil
		}
	}
	return false, "", nil
}

func runRecursive(c *core.Ctx) {
	// every kind of recursive graph is visited (the kinds are few; the keyword
	// spelling and the option are drawn per case)
	n := c.N(2, 8)
	reported := map[string]bool{}
	for kind := 0; kind <= 8; kind++ {
		kind := kind
		runRecursiveKind(c, kind, n, reported)
	}
}

func runRecursiveKind(c *core.Ctx, kind, n int, reported map[string]bool) {
	res := c.Rapid(fmt.Sprintf("recursive.%d", kind), n, 3+kind, func(rt *rapid.T) {
		var rc *recCase
		if kind == 7 {
			if c.Avoid("refs.anyof_items_cycle") {
				c.ExcludedMap()["refs.anyof_items_cycle"]++
				return
			}
			rc = anyOfItemsCycle()
		} else {
			rc = recursiveCases(rt, kind)
		}
		cfg := baseConfig()
		cfg.ExtraImports = rapid.Bool().Draw(rt, "extra")
		cs := &gen.Case{Files: rc.files, Inputs: []string{"prog.json"}, Config: cfg}
		var jobs []core.Job
		for _, d := range []int{0, 1, 2, 3, 10, 50, 200} {
			jobs = append(jobs, core.Job{Type: rc.typ, Op: "json", Doc: string(rc.docs(d).Marshal()), Expect: "accept", Label: fmt.Sprintf("%s depth %d", rc.name, d)})
		}
		if rc.wrap != nil {
			for _, spec := range [][2]int{{1, 1}, {2, 2}, {3, 2}, {5, 5}, {10, 7}, {40, 33}} {
				for _, wrong := range []bool{false, true} {
					kind := "missing required"
					if wrong {
						kind = "wrong type"
					}
					jobs = append(jobs, core.Job{Type: rc.typ, Op: "json", Doc: string(rc.wrap(badChain(spec[0], spec[1], wrong)).Marshal()), Expect: "reject",
						Label: fmt.Sprintf("%s depth %d, %s at level %d", rc.name, spec[0], kind, spec[1])})
				}
			}
		}
		c.Count("recursive." + rc.name)
		failed, msg, err := evalRecursive(cs, jobs)
		if err != nil {
			c.Infra("recursive: " + err.Error())
			return
		}
		c.Eval(len(jobs))
		c.Program(1)
		for _, j := range jobs {
			c.NonTrivial(rc.files[0].Text, j.Doc)
		}
		c.Sample(map[string]any{"recursive": rc.name, "files": rc.files, "doc_depths": []int{0, 1, 2, 3, 10, 50, 200}})
		if failed && !reported[rc.name] {
			reported[rc.name] = true
			if c.Survey() {
				c.SurveyAdd("recursive:"+rc.name, msg)
				return
			}
			c.Violation("recursive:"+rc.name, msg, &core.Replay{Check: "recursive", Case: cs, Jobs: jobs, Expected: "terminates, builds, accepts and round-trips nested documents", Observed: msg})
		}
	})
	if res.Failed {
		c.Infra("recursive generation failed: " + core.Clip(res.Msg, 400))
	}
}
