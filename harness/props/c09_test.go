package props

import (
	"fmt"
	"strings"
	"testing"

	"pgregory.net/rapid"

	"verif/harness/core"
	"verif/harness/docs"
	"verif/harness/jv"
	"verif/harness/model"
	"verif/harness/oracle"
	"verif/harness/sgen"
)

func zeroOf(n *model.Node) (jv.V, bool) {
	switch n.Kind {
	case model.KString:
		return jv.StrV(""), true
	case model.KInteger, model.KNumber:
		return jv.IntV(0), true
	case model.KBoolean:
		return jv.BoolV(false), true
	case model.KArray:
		return jv.ArrV(), true
	}
	return jv.V{}, false
}

func TestC09(t *testing.T) {
	c := core.New(t, "C09")
	defer c.Finish()
	c.Rule("programs whose optional (and some required) properties declare a default valid for their schema: strings, integers (also sized under --min-sized-ints), numbers, booleans, arrays of primitives incl. empty and up to 8 elements, string enums inline and via $ref, typed numeric enums, plus every other shape not excluded by an open finding; documents: property absent, null, present with another valid value, present with the zero value; oracle: decoded field (reflective dump) equals the default when absent or null and the document's value when present; the emitted file must type-check (a type error can only come from a default literal in this profile); non-trivial = document lacking a defaulted property whose default is not the Go zero value; distinct by sha256(schema,args,document)")
	c.Assume("R3 (null is sent to defaulted properties because the statement names it)", "R4", "reference oracle section 1.4")
	runEval := runReplayEval(stdJudge)
	eval := func(r *core.Replay) (bool, string, error) {
		if r.Check == "typecheck" {
			st, probs := evalC01(r.Case)
			if strings.HasPrefix(st, "infra") {
				return false, "", errString(st)
			}
			return len(probs) > 0, strings.Join(probs, "\n"), nil
		}
		return runEval(r)
	}
	if c.RunReplay(eval) {
		return
	}
	c.Regressions(eval)
	o := docOpts(c)
	prof := &sgen.Profile{MaxDepth: 2, MinProps: 4, MaxProps: 10, MinDefs: 1, MaxDefs: 3, ArrayDepth: 2,
		WString: 5, WInteger: 5, WNumber: 4, WBoolean: 3, WArray: 4, WEnum: 4, WRef: 3, WObject: 2, WMap: 1, WAny: 1,
		DefWeights:  map[string]int{"enum": 4, "object": 2, "string": 1, "integer": 1},
		PConstraint: 0.35, PNullable: 0.08, PRequired: 0.25, PFormat: 0.15, MixedEnums: true,
		Avoid: c.Avoid, Excluded: c.ExcludedMap(), Sat: docs.Satisfiable}
	typeFails := 0
	runProperty(c, "run", c.N(300, 6000), 0, func(rt *rapid.T) *RunCase {
		f := prof.File(rt, "prog.json")
		// arrays with up to 8 elements in defaults
		dopts := *o
		dopts.MaxArr = 8
		docs.AddDefaults(rt, f.Root, 0.8, &dopts, func(n *model.Node) bool { return defaultAllowed(c, n) })
		// text that a formatting verb would mangle, in scalar and array string defaults
		if rapid.IntRange(0, 2).Draw(rt, "percentdefaults") == 0 {
			texts := []string{"%Y-%m-%d", "a%20b", "100%% sure", "%d items", "50% off", "%s", "%v%v", "%!x", "x%", "%"}
			plainString := func(n *model.Node) bool {
				r := n.Resolve()
				return r != nil && r.Kind == model.KString && r.Pattern == "" && r.Format == "" && r.MinLength == nil && r.MaxLength == nil
			}
			for _, p := range f.Root.Props {
				d := p.Node.Default
				if d == nil {
					continue
				}
				switch {
				case d.K == jv.Str && plainString(p.Node):
					v := jv.StrV(rapid.SampledFrom(texts).Draw(rt, "pct"))
					p.Node.Default = &v
					c.Count("shape.percent_default.scalar")
				case d.K == jv.Arr && len(d.A) > 0 && p.Node.Resolve().Kind == model.KArray && p.Node.Resolve().Items != nil && plainString(p.Node.Resolve().Items):
					a := jv.V{K: jv.Arr, A: append([]jv.V{}, d.A...)}
					for i := range a.A {
						if rapid.Bool().Draw(rt, "pctelem") {
							a.A[i] = jv.StrV(rapid.SampledFrom(texts).Draw(rt, "pct"))
						}
					}
					p.Node.Default = &a
					c.Count("shape.percent_default.array")
				}
			}
		}
		if rapid.IntRange(0, 3).Draw(rt, "percentarray") == 0 {
			texts := []string{"%Y-%m-%d", "a%20b", "100%% sure", "%d items", "50% off", "%s", "plain", "x%y"}
			k := rapid.IntRange(1, 4).Draw(rt, "pctn")
			a := jv.ArrV()
			for i := 0; i < k; i++ {
				a.A = append(a.A, jv.StrV(rapid.SampledFrom(texts).Draw(rt, "pcttext")))
			}
			f.Root.Props = append(f.Root.Props, model.Prop{Name: "zformats", Node: &model.Node{Kind: model.KArray, Items: &model.Node{Kind: model.KString}, Default: &a}})
			sv := jv.StrV(rapid.SampledFrom(texts).Draw(rt, "pctscalar"))
			f.Root.Props = append(f.Root.Props, model.Prop{Name: "zformat", Node: &model.Node{Kind: model.KString, Default: &sv}})
			c.Count("shape.percent_default.explicit")
		}
		// fractional defaults on fields whose Go type is a named type with "int" in its name
		if rapid.IntRange(0, 2).Draw(rt, "intnameddefaults") == 0 {
			tint := &model.Node{Kind: model.KNumber}
			dn := rapid.SampledFrom([]string{"Tint", "Point", "Hint", "Printer"}).Draw(rt, "intname")
			f.Defs = append(f.Defs, model.Def{Name: dn, Node: tint})
			d1 := jv.NumLit(rapid.SampledFrom([]string{"0.35", "1.5", "-2.25", "0.5"}).Draw(rt, "fracdef"))
			f.Root.Props = append(f.Root.Props, model.Prop{Name: "ztinted", Node: &model.Node{Kind: model.KRef, Ref: "#/$defs/" + dn, Target: tint, Default: &d1}})
			d2 := jv.ArrV(jv.NumLit("0.25"), jv.NumLit("0.75"))
			f.Root.Props = append(f.Root.Props, model.Prop{Name: "ztints", Node: &model.Node{Kind: model.KArray, Items: &model.Node{Kind: model.KRef, Ref: "#/$defs/" + dn, Target: tint}, Default: &d2}})
			d3 := jv.NumLit("1.5")
			f.Root.Props = append(f.Root.Props, model.Prop{Name: "pointSize", Node: &model.Node{Kind: model.KEnum, EnumType: "number", EnumVals: []jv.V{jv.NumLit("0.5"), jv.NumLit("1.5"), jv.NumLit("2.5")}, Default: &d3}})
			c.Count("shape.fraction_default_on_int_named_type")
		}
		// falsy scalar defaults (0, false, "") on properties whose Go field is interface{}:
		// untyped, or a type list without null; a non-zero control next to them
		if rapid.IntRange(0, 2).Draw(rt, "falsyuntyped") == 0 {
			falsy := []jv.V{jv.IntV(0), jv.BoolV(false), jv.StrV(""), jv.NumLit("0.5"), jv.StrV("x")}
			for i, dv := range falsy {
				d := dv
				n := &model.Node{Kind: model.KAny, Default: &d}
				f.Root.Props = append(f.Root.Props, model.Prop{Name: fmt.Sprintf("zuntyped%d", i), Node: n})
			}
			c.Count("shape.falsy_default_on_untyped_property")
		}
		// a definition with a type-level default, referenced with a different sibling default:
		// the property's own default wins
		if rapid.IntRange(0, 2).Draw(rt, "refdefaultoverride") == 0 {
			mkv := func(b int64, r string) *jv.V {
				v := jv.ObjV(jv.Field("burst", jv.IntV(b)), jv.Field("rate", jv.NumLit(r)))
				return &v
			}
			lim := &model.Node{Kind: model.KObject, Props: []model.Prop{
				{Name: "burst", Node: &model.Node{Kind: model.KInteger}},
				{Name: "rate", Node: &model.Node{Kind: model.KNumber}},
			}, Required: []string{"burst", "rate"}, Default: mkv(10, "2.5")} // required members: value-typed fields (pointer members in an object default are an open finding)
			f.Defs = append(f.Defs, model.Def{Name: "ZLimits", Node: lim})
			f.Root.Props = append(f.Root.Props,
				model.Prop{Name: "zlimitsown", Node: &model.Node{Kind: model.KRef, Ref: "#/$defs/ZLimits", Target: lim, Default: mkv(2, "0.5")}},
				model.Prop{Name: "zlimitssame", Node: &model.Node{Kind: model.KRef, Ref: "#/$defs/ZLimits", Target: lim, Default: mkv(10, "2.5")}})
			c.Count("shape.ref_default_overrides_definition_default")
		}
		if rapid.IntRange(0, 3).Draw(rt, "defaultcollision") == 0 {
			// two structurally identical object schemas that compete for one Go type name and differ
			// only in their defaults: each must keep its own defaults
			mk := func(n int64, sv string) *model.Node {
				dn, ds := jv.IntV(n), jv.StrV(sv)
				return &model.Node{Kind: model.KObject, Props: []model.Prop{
					{Name: "maxConn", Node: &model.Node{Kind: model.KInteger, Default: &dn}},
					{Name: "mode", Node: &model.Node{Kind: model.KString, Default: &ds}},
				}}
			}
			a, b := mk(100, "strict"), mk(10, "lenient")
			inner := &model.Node{Kind: model.KObject, Props: []model.Prop{{Name: "limits", Node: a}}, Required: []string{"limits"}}
			f.Root.Props = append(f.Root.Props, model.Prop{Name: "colsrv", Node: inner}, model.Prop{Name: "colsrv_limits", Node: b})
			f.Root.Required = append(f.Root.Required, "colsrv", "colsrv_limits")
			c.Count("shape.default_collision")
		}
		cfg := baseConfig()
		cfg.MinSizedInts = rapid.Bool().Draw(rt, "minsized")
		if cfg.MinSizedInts && hasIntegerEnum(f) && c.Avoid("enums.typed_integer_min_sized") {
			c.ExcludedMap()["enums.typed_integer_min_sized"]++
			cfg.MinSizedInts = false
		}
		cs := caseOf(cfg, []string{f.RelPath}, f)
		countShapes(c, f, cs.Config)
		st, probs := evalC01(cs)
		c.Count("static." + strings.SplitN(st, ":", 2)[0])
		if len(probs) > 0 {
			if c.Survey() {
				c.SurveyAdd("typecheck "+normMsg(probs[0]), probs[0])
				c.SurveyReplay("typecheck "+normMsg(probs[0]), &core.Replay{Check: "typecheck", Case: cs, Observed: strings.Join(probs, "\n")})
			} else if typeFails == 0 {
				typeFails++
				c.Violation("typecheck", "default literal does not have the field's type: "+probs[0], &core.Replay{Check: "typecheck", Case: cs, Expected: "the emitted file type-checks", Observed: strings.Join(probs, "\n")})
			}
			return nil
		}
		var jobs []core.Job
		add := func(v jv.V, label string) {
			if !oracle.Accepts(f.Root, v) {
				c.Count("doc.skipped_invalid." + label)
				return
			}
			e := docs.Expect(f.Root, v)
			jobs = append(jobs, core.Job{Type: progRoot, Op: "json", Doc: string(v.Marshal()), Expect: "accept", ExpectVal: expJSON(e), Label: label})
			c.Count("doc." + label)
		}
		// base: every required property without default present, all others absent
		oo := *o
		oo.NoProps, oo.NoNulls = true, true
		base, ok := docs.Valid(rt, f.Root, &oo)
		if !ok {
			c.Count("doc.no_valid")
			return nil
		}
		for _, p := range f.Root.Props {
			if p.Node.Default != nil {
				base = base.Del(p.Name)
			}
		}
		add(base, "absent")
		nonZero := 0
		for _, p := range f.Root.Props {
			if p.Node.Default == nil {
				continue
			}
			c.Count("default." + p.Node.Resolve().Kind.String())
			if !emptyJSON(*p.Node.Default) {
				nonZero++
			}
			if rk := p.Node.Resolve().Kind; (rk == model.KEnum || rk == model.KObject || p.Node.Kind == model.KRef) && c.Avoid("defaults.null_on_type_with_unmarshaler") {
				c.ExcludedMap()["defaults.null_on_type_with_unmarshaler"]++
			} else {
				add(base.Set(p.Name, jv.NullV()), "null")
			}
			if v, ok := docs.Valid(rt, p.Node, &oo); ok {
				add(base.Set(p.Name, v), "present")
			}
			if z, ok := zeroOf(p.Node.Resolve()); ok {
				add(base.Set(p.Name, z), "zero")
			}
		}
		if nonZero > 0 {
			for _, j := range jobs {
				if j.Label == "absent" || j.Label == "null" {
					c.NonTrivial(cs.Files[0].Text, j.Doc)
				}
			}
		}
		if f.Root.Prop("colsrv") != nil {
			add(base.Set("colsrv", jv.ObjV(jv.Field("limits", jv.ObjV()))).Set("colsrv_limits", jv.ObjV()), "collision-absent")
			for _, j := range jobs {
				if j.Label == "collision-absent" {
					c.NonTrivial(cs.Files[0].Text, j.Doc)
				}
			}
		}
		// all present
		oo2 := *o
		oo2.AllProps, oo2.NoNulls = true, true
		if v, ok := docs.Valid(rt, f.Root, &oo2); ok {
			add(v, "allpresent")
		}
		c.Sample(sampleOf(cs, jobs))
		return &RunCase{Case: cs, Jobs: jobs, Model: modelIfSingle(cs, f)}
	}, stdJudge)
}

type errString string

func (e errString) Error() string { return string(e) }

func hasIntegerEnum(f *model.File) bool {
	found := false
	visit := func(n *model.Node) {
		if n.Kind == model.KEnum && n.EnumType == "integer" {
			found = true
		}
	}
	model.Walk(f.Root, visit)
	for _, d := range f.Defs {
		model.Walk(d.Node, visit)
	}
	return found
}
