package props

import (
	"bytes"
	"fmt"
	"go/ast"
	"go/format"
	"go/parser"
	"go/token"
	"reflect"
	"sort"
	"strings"
	"testing"
	"time"

	"pgregory.net/rapid"

	"verif/harness/core"
	"verif/harness/docs"
	"verif/harness/gen"
	"verif/harness/goast"
	"verif/harness/model"
)

type parsedOut struct {
	fset *token.FileSet
	file *ast.File
	src  string
}

func parseOut(src string) (*parsedOut, error) {
	fset := token.NewFileSet()
	f, err := parser.ParseFile(fset, "gen.go", src, parser.ParseComments|parser.SkipObjectResolution)
	if err != nil {
		return nil, err
	}
	return &parsedOut{fset, f, src}, nil
}

func (p *parsedOut) print(n ast.Node) string {
	var b bytes.Buffer
	_ = format.Node(&b, p.fset, n)
	return b.String()
}

func isYAMLMethod(d ast.Decl) bool {
	fd, ok := d.(*ast.FuncDecl)
	return ok && fd.Recv != nil && strings.HasSuffix(fd.Name.Name, "YAML")
}

func isYAMLImport(d ast.Decl) bool {
	gd, ok := d.(*ast.GenDecl)
	if !ok || gd.Tok != token.IMPORT {
		return false
	}
	for _, s := range gd.Specs {
		if strings.Contains(s.(*ast.ImportSpec).Path.Value, "yaml") {
			return true
		}
	}
	return false
}

// declTexts prints every top-level declaration (doc comments included).
func (p *parsedOut) declTexts(skip func(ast.Decl) bool) []string {
	var out []string
	for _, d := range p.file.Decls {
		if skip != nil && skip(d) {
			continue
		}
		out = append(out, p.print(d))
	}
	return out
}

func multisetDiff(a, b []string) (onlyA, onlyB []string) {
	m := map[string]int{}
	for _, x := range a {
		m[x]++
	}
	for _, x := range b {
		if m[x] > 0 {
			m[x]--
		} else {
			onlyB = append(onlyB, x)
		}
	}
	for x, k := range m {
		for i := 0; i < k; i++ {
			onlyA = append(onlyA, x)
		}
	}
	sort.Strings(onlyA)
	sort.Strings(onlyB)
	return
}

func kindOfDecl(d ast.Decl) string {
	switch x := d.(type) {
	case *ast.FuncDecl:
		return "func"
	case *ast.GenDecl:
		return strings.ToLower(x.Tok.String())
	}
	return "?"
}

// ---- only-models
func relOnlyModels(full, om *parsedOut) []string {
	var probs []string
	var typesFull, typesOM, constFull, constOM, impFull, impOM []string
	collect := func(p *parsedOut, types, consts, imps *[]string, strict bool) {
		for _, d := range p.file.Decls {
			switch kindOfDecl(d) {
			case "type":
				*types = append(*types, p.print(d))
			case "const":
				*consts = append(*consts, p.print(d))
			case "import":
				*imps = append(*imps, p.print(d))
			case "func", "var":
				if strict {
					probs = append(probs, "--only-models output contains a "+kindOfDecl(d)+" declaration: "+core.Clip(firstLine(p.print(d)), 100))
				}
			}
		}
	}
	collect(full, &typesFull, &constFull, &impFull, false)
	collect(om, &typesOM, &constOM, &impOM, true)
	a, b := multisetDiff(typesFull, typesOM)
	for _, x := range a {
		probs = append(probs, "type declaration only in the full run: "+core.Clip(firstLine(x), 100))
	}
	for _, x := range b {
		probs = append(probs, "type declaration only with --only-models: "+core.Clip(firstLine(x), 100))
	}
	_, b = multisetDiff(constFull, constOM)
	for _, x := range b {
		probs = append(probs, "constant only with --only-models: "+core.Clip(firstLine(x), 100))
	}
	_, b = multisetDiff(impFull, impOM)
	for _, x := range b {
		probs = append(probs, "import only with --only-models: "+core.Clip(firstLine(x), 100))
	}
	return probs
}

// ---- tags
func blankTags(p *parsedOut) (string, []string) {
	var tags []string
	ast.Inspect(p.file, func(n ast.Node) bool {
		if f, ok := n.(*ast.Field); ok && f.Tag != nil {
			tags = append(tags, strings.Trim(f.Tag.Value, "`"))
			f.Tag.Value = "``"
		}
		return true
	})
	return p.print(p.file), tags
}

func relTags(a, b *parsedOut, tagsA, tagsB []string) []string {
	var probs []string
	sa, ta := blankTags(a)
	sb, tb := blankTags(b)
	if sa != sb {
		probs = append(probs, "--tags changed something other than struct tags: "+firstDiffLine(sa, sb))
	}
	if len(ta) != len(tb) {
		probs = append(probs, fmt.Sprintf("different number of tagged fields: %d vs %d", len(ta), len(tb)))
		return probs
	}
	check := func(tag string, want []string) (string, string) {
		st := reflect.StructTag(tag)
		var val string
		var parts []string
		for i, k := range want {
			v, ok := st.Lookup(k)
			if !ok {
				return "", fmt.Sprintf("tag key %q missing in `%s`", k, tag)
			}
			if i == 0 {
				val = v
			} else if v != val {
				return "", fmt.Sprintf("tag keys carry different values in `%s`", tag)
			}
			parts = append(parts, fmt.Sprintf("%s:%q", k, v))
		}
		if strings.Join(parts, " ") != tag {
			return "", fmt.Sprintf("tag `%s` does not consist of exactly the requested keys %v", tag, want)
		}
		return val, ""
	}
	for i := range ta {
		if strings.HasPrefix(ta[i], "mapstructure:\",remain\"") && ta[i] == tb[i] {
			continue // the additional-properties field carries a fixed tag
		}
		va, ea := check(ta[i], tagsA)
		vb, eb := check(tb[i], tagsB)
		if ea != "" || eb != "" {
			probs = append(probs, ea+eb)
			continue
		}
		if va != vb {
			probs = append(probs, fmt.Sprintf("tag value changed with --tags: %q vs %q", va, vb))
		}
	}
	return probs
}

// ---- identifier-only options: per-declaration shapes
func shapeOf(p *parsedOut, d ast.Decl) string {
	// work on a re-parsed copy of the declaration text so the original stays intact
	src := "package x\n" + p.print(d)
	fset := token.NewFileSet()
	f, err := parser.ParseFile(fset, "d.go", src, parser.SkipObjectResolution)
	if err != nil {
		return "unparsable:" + src
	}
	keep := map[string]bool{"string": true, "int": true, "int8": true, "int16": true, "int32": true, "int64": true, "uint8": true, "uint16": true, "uint32": true, "uint64": true,
		"float64": true, "bool": true, "error": true, "nil": true, "true": true, "false": true, "len": true, "byte": true, "any": true, "append": true,
		"json": true, "fmt": true, "yaml": true, "reflect": true, "strings": true, "regexp": true, "math": true, "errors": true, "mapstructure": true, "time": true, "netip": true, "types": true,
		"Unmarshal": true, "Errorf": true, "UnmarshalJSON": true, "UnmarshalYAML": true, "MarshalJSON": true, "MarshalYAML": true, "Decode": true, "Node": true, "MatchString": true,
		"DeepEqual": true, "Join": true, "Marshal": true, "Abs": true, "Mod": true, "TypeOf": true, "NumField": true, "Field": true, "Name": true, "Tag": true, "Get": true, "Split": true,
		"Time": true, "Addr": true, "SerializableDate": true, "SerializableTime": true, "value": true, "raw": true, "plain": true, "err": true, "ok": true, "v": true, "j": true, "st": true, "i": true,
		"errs": true, "matched": true, "expected": true, "interface": true, "Value": true, "AdditionalProperties": true}
	ast.Inspect(f, func(n ast.Node) bool {
		switch x := n.(type) {
		case *ast.Ident:
			if !keep[x.Name] {
				x.Name = "X"
			}
		case *ast.BasicLit:
			if x.Kind == token.STRING && !strings.HasPrefix(x.Value, "`") {
				x.Value = `"S"`
			}
		}
		return true
	})
	var b bytes.Buffer
	_ = format.Node(&b, fset, f)
	// comments carry names too
	var lines []string
	for _, l := range strings.Split(b.String(), "\n") {
		if t := strings.TrimSpace(l); strings.HasPrefix(t, "//") || t == "" {
			continue
		}
		lines = append(lines, l)
	}
	return strings.Join(lines, "\n")
}

func relIdentifiersOnly(a, b *parsedOut, what string) []string {
	var sa, sb []string
	for _, d := range a.file.Decls {
		sa = append(sa, shapeOf(a, d))
	}
	for _, d := range b.file.Decls {
		sb = append(sb, shapeOf(b, d))
	}
	onlyA, onlyB := multisetDiff(sa, sb)
	var probs []string
	if len(onlyA)+len(onlyB) > 0 {
		x := ""
		if len(onlyA) > 0 {
			x = onlyA[0]
		}
		y := ""
		if len(onlyB) > 0 {
			y = onlyB[0]
		}
		probs = append(probs, fmt.Sprintf("%s changed more than identifiers: %d declaration shapes differ; e.g. %s", what, len(onlyA)+len(onlyB), firstDiffLine(x, y)))
	}
	return probs
}

// ---- extra-imports
func relExtraImports(off, on *parsedOut) []string {
	var probs []string
	for _, d := range off.file.Decls {
		if isYAMLImport(d) || isYAMLMethod(d) {
			probs = append(probs, "YAML code without --extra-imports: "+core.Clip(firstLine(off.print(d)), 100))
		}
	}
	if strings.Contains(off.src, "yaml.") {
		probs = append(probs, "the flag-off output mentions the yaml package")
	}
	a := off.declTexts(nil)
	b := on.declTexts(func(d ast.Decl) bool { return isYAMLImport(d) || isYAMLMethod(d) })
	if len(a) != len(b) {
		probs = append(probs, fmt.Sprintf("removing the YAML import and methods from the flag-on output leaves %d declarations, the flag-off output has %d", len(b), len(a)))
		return probs
	}
	for i := range a {
		if a[i] != b[i] {
			probs = append(probs, "JSON-side declaration differs with --extra-imports: "+firstDiffLine(a[i], b[i]))
			break
		}
	}
	return probs
}

var c16Effect func(string)

type c16Pair struct {
	rel   string
	a, b  *gen.Case
	extra string
}

func evalC16(rel string, a, b *gen.Case, useCLI bool) (bool, string, error) {
	run := func(cs *gen.Case) (*gen.Result, error) {
		r := gen.Run(cs)
		return &r, nil
	}
	ra, _ := run(a)
	rb, _ := run(b)
	if ra.Panic != "" || rb.Panic != "" {
		return false, "", nil
	}
	if !ra.OK() || !rb.OK() {
		if ra.OK() != rb.OK() {
			return true, fmt.Sprintf("option %s decides whether the schema is accepted: %q vs %q", rel, core.Clip(ra.Err, 150), core.Clip(rb.Err, 150)), nil
		}
		return false, "", nil
	}
	if len(ra.Sources) != 1 || len(rb.Sources) != 1 {
		return false, "", nil
	}
	if c16Effect != nil {
		if ra.Sources["-"] == rb.Sources["-"] {
			c16Effect("effect." + rel + ".none")
		} else {
			c16Effect("effect." + rel + ".changed")
		}
	}
	pa, ea := parseOut(ra.Sources["-"])
	pb, eb := parseOut(rb.Sources["-"])
	if ea != nil || eb != nil {
		return false, "", nil // unparsable output is C01's subject
	}
	var probs []string
	switch rel {
	case "only-models":
		probs = relOnlyModels(pa, pb)
		if len(probs) == 0 {
			// "nothing else": an import that only the omitted methods used would be an unused import
			psA, _ := goast.CheckSingle("gen.go", ra.Sources["-"])
			psB, _ := goast.CheckSingle("gen.go", rb.Sources["-"])
			fullOK := true
			for _, p := range psA {
				if p.Kind == "type" {
					fullOK = false
				}
			}
			if fullOK {
				for _, p := range psB {
					if p.Kind == "type" {
						probs = append(probs, "the full output type-checks but the --only-models output does not: "+p.Msg)
						break
					}
				}
			}
		}
	case "tags":
		probs = relTags(pa, pb, a.Config.Tags, b.Config.Tags)
	case "capitalization", "struct-name-from-title", "schema-root-type":
		probs = relIdentifiersOnly(pa, pb, "--"+rel)
	case "extra-imports":
		probs = relExtraImports(pa, pb)
	}
	if len(probs) == 0 && useCLI {
		for _, cs := range []*gen.Case{a, b} {
			res, err := gen.RunCLI(cs, nil, nil, 60*time.Second, false)
			if err != nil {
				return false, "", err
			}
			inproc := gen.Run(cs)
			if res.Exit != 0 {
				probs = append(probs, "CLI fails where the equivalent in-process configuration succeeds: "+core.Clip(res.Stderr, 200))
			} else if res.Stdout != inproc.Sources["-"] {
				probs = append(probs, "CLI output differs from the in-process output for the equivalent configuration (flag wiring/defaults): "+firstDiffLine(res.Stdout, inproc.Sources["-"]))
			}
		}
	}
	return len(probs) > 0, strings.Join(probs, "\n"), nil
}

func TestC16(t *testing.T) {
	c := core.New(t, "C16")
	defer c.Finish()
	defer gen.CleanupCLI()
	c.Rule("full-mix schemas x a random base option set x exactly one toggled option; relations on go/ast level: --only-models: same multiset of printed type declarations, no func/var, constants and imports subsets of the full run; --tags: after blanking struct-tag literals the printed files are identical, every tag consists of exactly the requested keys with one common name[,omitempty] value that is the same in both runs; --capitalization / --struct-name-from-title / --schema-root-type: multisets of per-declaration shapes (identifiers, interpreted string literals and comments abstracted, raw-string tags kept) are equal; --extra-imports off: no yaml import/method/mention and the flag-on declarations minus YAML import and *YAML methods equal the flag-off declarations text for text; a sample of pairs also runs the real CLI whose stdout must equal the in-process output; non-trivial = schema with >=1 validator, >=1 enum and >=1 nested type; distinct by sha256(schema,both argument lists)")
	c.Assume("extension objects consistent", "the fixed mapstructure:\",remain\" tag of the additional-properties field is not subject to --tags")
	eval := func(r *core.Replay) (bool, string, error) {
		return evalC16(r.Note, r.Cases[0], r.Cases[1], strings.Contains(r.Check, "cli"))
	}
	if c.RunReplay(eval) {
		return
	}
	c.Regressions(eval)
	prof := fullMixProfile(c)
	prof.HostileText = false
	c16Effect = c.Count
	var last *core.Replay
	iter := 0
	cliEvery := 25
	res := c.Rapid("options", c.N(1500, 30000), 0, func(rt *rapid.T) {
		f := prof.File(rt, "prog.json")
		docs.AddDefaults(rt, f.Root, 0.15, &docs.Opts{}, func(n *model.Node) bool { return defaultAllowed(c, n) })
		if rapid.Bool().Draw(rt, "title") {
			f.Title = rapid.SampledFrom([]string{"My Title", "thing", "a b-c", "URL list", "id"}).Draw(rt, "titletext")
		}
		base := drawOptions(rt)
		rel := rapid.SampledFrom([]string{"only-models", "tags", "capitalization", "struct-name-from-title", "schema-root-type", "extra-imports"}).Draw(rt, "relation")
		a, b := base, base
		switch rel {
		case "only-models":
			a.OnlyModels, b.OnlyModels = false, true
		case "tags":
			a.Tags = []string{"json", "yaml", "mapstructure"}
			b.Tags = rapid.SampledFrom([][]string{{"json"}, {"yaml", "json"}, {"json", "toml", "xml"}, {"mapstructure"}}).Draw(rt, "tagsb")
		case "capitalization":
			a.Capitalizations = nil
			b.Capitalizations = rapid.SliceOfN(rapid.SampledFrom([]string{"ID", "URL", "API", "Ab", "HTTP", "Id", "A", "Br"}), 0, 2).Draw(rt, "capsb")
			// case variants of word parts that actually occur in the schema
			for _, p := range f.Root.Props {
				if rapid.IntRange(0, 2).Draw(rt, "capprop") != 0 {
					continue
				}
				run := ""
				for _, r := range p.Name {
					if r >= 'a' && r <= 'z' {
						run += string(r)
					} else {
						break
					}
				}
				if len(run) >= 2 {
					b.Capitalizations = append(b.Capitalizations, strings.ToUpper(run))
				}
			}
			if len(b.Capitalizations) == 0 {
				b.Capitalizations = []string{"ID"}
			}
		case "struct-name-from-title":
			if f.Title == "" {
				f.Title = "Some Title"
			}
			a.StructNameFromTitle, b.StructNameFromTitle = false, true
		case "schema-root-type":
			// both runs map the id to the same package and output; only the root type differs
			a.Mappings = []gen.Mapping{{ID: f.ID, Package: base.DefaultPackage, Output: "-"}}
			b.Mappings = []gen.Mapping{{ID: f.ID, Package: base.DefaultPackage, Output: "-", RootType: "CustomRoot"}}
			if rapid.IntRange(0, 3).Draw(rt, "typelessroot") == 0 {
				// a root that states properties but no type keyword
				f.Root.NoType = true
				c.Count("shape.typeless_root")
			}
		case "extra-imports":
			a.ExtraImports, b.ExtraImports = false, true
			a.OnlyModels, b.OnlyModels = false, false
		}
		files := []*model.File{f}
		if (rel == "struct-name-from-title" || rel == "schema-root-type") && f.Root.Kind == model.KObject && rapid.Bool().Draw(rt, "nillablecycle") {
			// a reference cycle through a nillable named type (a map or an array definition) that an
			// optional property of a struct definition points back to; the root reaches the nillable
			// member first. How the root type is NAMED must not decide which member gets the pointer.
			structName := rapid.SampledFrom([]string{"zcentry", "zczentry"}).Draw(rt, "cyclestructname") // sorts before / after the map
			entry := &model.Node{Kind: model.KObject, Props: []model.Prop{{Name: "label", Node: &model.Node{Kind: model.KString}}}}
			var index *model.Node
			if rapid.Bool().Draw(rt, "cyclemap") {
				index = &model.Node{Kind: model.KObject, Additional: &model.Additional{Schema: &model.Node{Kind: model.KRef, Ref: "#/$defs/" + structName, Target: entry}}}
			} else {
				index = &model.Node{Kind: model.KArray, Items: &model.Node{Kind: model.KRef, Ref: "#/$defs/" + structName, Target: entry}}
			}
			entry.Props = append(entry.Props, model.Prop{Name: "children", Node: &model.Node{Kind: model.KRef, Ref: "#/$defs/zcsection_index", Target: index}})
			f.Defs = append(f.Defs, model.Def{Name: structName, Node: entry}, model.Def{Name: "zcsection_index", Node: index})
			f.Root.Props = append(f.Root.Props, model.Prop{Name: "zcsections", Node: &model.Node{Kind: model.KRef, Ref: "#/$defs/zcsection_index", Target: index}})
			c.Count("shape.cycle_through_nillable_definition")
		}
		if rel == "schema-root-type" && f.Root.Kind == model.KObject && rapid.IntRange(0, 3).Draw(rt, "foreignroot") == 0 {
			// the renamed root belongs to a schema whose types live in another package that this run
			// does not write (package mapping without output): only the qualified name changes
			cust := &model.File{RelPath: "customer.json", ID: "https://example.com/customer", Root: &model.Node{Kind: model.KObject,
				Props: []model.Prop{{Name: "name", Node: &model.Node{Kind: model.KString}}}, Required: []string{"name"}}}
			f.Root.Props = append(f.Root.Props, model.Prop{Name: "zcustomer", Node: &model.Node{Kind: model.KRef, Ref: "customer.json", Target: cust.Root}})
			files = append(files, cust)
			a.Mappings = []gen.Mapping{{ID: cust.ID, Package: "example.com/gen/customer"}}
			b.Mappings = []gen.Mapping{{ID: cust.ID, Package: "example.com/gen/customer", RootType: "Client"}}
			f.Root.NoType = false
			c.Count("shape.root_type_of_foreign_package_schema")
		}
		ca := caseOf(a, []string{f.RelPath}, files...)
		cb := caseOf(b, []string{f.RelPath}, files...)
		iter++
		useCLI := iter%cliEvery == 0
		failed, msg, err := evalC16(rel, ca, cb, useCLI)
		if err != nil {
			c.Infra(err.Error())
			return
		}
		c.Eval(1)
		c.Program(2)
		c.Count("relation." + rel)
		if useCLI {
			c.Count("cli_pairs")
		}
		sig := featureSig(f, a)
		if strings.Contains(sig, "enum") && strings.Contains(sig, "object") && (strings.Contains(sig, "bounds") || strings.Contains(sig, "strlen") || strings.Contains(sig, "pattern")) {
			c.NonTrivial(ca.Files[0].Text, strings.Join(a.Args(), " "), strings.Join(b.Args(), " "))
		}
		c.Sample(map[string]any{"relation": rel, "a": describeCase(ca)["args"], "b": describeCase(cb)["args"], "schema": core.Clip(ca.Files[0].Text, 800)})
		if failed {
			chk := "options"
			if useCLI {
				chk = "options-cli"
			}
			last = &core.Replay{Check: chk, Cases: []*gen.Case{ca, cb}, Note: rel, Expected: "the option changes only what it names", Observed: msg}
			rt.Fatalf("%s", msg)
		}
	})
	if res.Failed {
		if last != nil {
			c.Violation(last.Note+":"+normMsg(firstLine(last.Observed)), last.Observed, last)
		} else {
			c.Infra("rapid failed without a case: " + core.Clip(res.Msg, 400))
		}
	}
}
