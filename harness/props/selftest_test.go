package props

import (
	"bufio"
	"encoding/json"
	"os"
	"testing"

	"pgregory.net/rapid"

	"verif/harness/core"
	"verif/harness/docs"
	"verif/harness/jv"
	"verif/harness/oracle"
	"verif/harness/sgen"
)

// TestOracleSelfTest is not a property check: it dumps (schema text, document,
// verdict of the reference oracle) triples produced by the same generators the
// checks use, for tools/oracle_selftest.py, which validates every pair with the
// independent python-jsonschema implementation and reports disagreements by class.
// It runs only when VERIF_SELFTEST_OUT names the output file (./check selftest).
func TestOracleSelfTest(t *testing.T) {
	out := os.Getenv("VERIF_SELFTEST_OUT")
	if out == "" {
		t.Skip("VERIF_SELFTEST_OUT not set")
	}
	os.Setenv("VERIF_OUT", t.TempDir())
	os.Setenv("VERIF_NO_AVOID", "1") // the oracle is compared on the whole domain, also where the tool is known to be wrong
	c := core.New(t, "SELFTEST")
	defer c.Finish()
	fh, err := os.Create(out)
	must(err)
	defer fh.Close()
	w := bufio.NewWriter(fh)
	defer w.Flush()
	enc := json.NewEncoder(w)
	enc.SetEscapeHTML(false)

	type rec struct {
		Profile string `json:"profile"`
		Schema  string `json:"schema"`
		Doc     string `json:"doc"`
		Expect  string `json:"expect"`
		Rule    string `json:"rule,omitempty"`
		Label   string `json:"label"`
		// facts the comparator needs to classify deliberate deviations
		RulesAll []string `json:"rules_all,omitempty"`
	}
	o := docOpts(c)
	profiles := []struct {
		name string
		p    *sgen.Profile
	}{
		{"fullmix", fullMixProfile(c)},
		{"numeric", numericProfile(c)},
		{"string", stringProfile(c)},
	}
	allKinds := map[string]bool{"type": true, "required": true, "numeric": true, "string": true, "array": true, "enum": true}
	n := c.N(150, 1500)
	for pi, pr := range profiles {
		pr.p.HostileText = false
		plan := &docPlan{NValid: 8, Kinds: allKinds, MaxMut: 40}
		res := c.Rapid("selftest-"+pr.name, n, 900+pi, func(rt *rapid.T) {
			f := pr.p.File(rt, "prog.json")
			if rapid.IntRange(0, 2).Draw(rt, "defaults") == 0 {
				docs.AddDefaults(rt, f.Root, 0.5, o, nil)
			}
			cs := caseOf(baseConfig(), []string{f.RelPath}, f)
			jobs := buildJobs(rt, c, f.Root, progRoot, plan, o, cs)
			// numeric probes around every stated bound, judged by the oracle alone
			for _, j := range jobs {
				r := rec{Profile: pr.name, Schema: cs.Files[0].Text, Doc: j.Doc, Expect: j.Expect, Rule: j.Rule, Label: j.Label}
				if v, err := jv.Parse([]byte(j.Doc)); err == nil {
					for _, vi := range oracle.Validate(f.Root, v) {
						r.RulesAll = append(r.RulesAll, vi.String())
					}
					if (len(r.RulesAll) == 0) != (j.Expect == "accept") {
						rt.Fatalf("job expectation %q disagrees with the oracle's own verdict %v on %s", j.Expect, r.RulesAll, j.Doc)
					}
				}
				must(enc.Encode(&r))
			}
		})
		if res.Failed {
			t.Fatalf("self-test generation failed: %s", res.Msg)
		}
	}
}
