package props

import (
	"fmt"
	"strings"
	"testing"

	"pgregory.net/rapid"

	"verif/harness/core"
	"verif/harness/docs"
	"verif/harness/gen"
	"verif/harness/jv"
	"verif/harness/model"
	"verif/harness/oracle"
	"verif/harness/sgen"
)

var typeLimits = []float64{-2147483649, -2147483648, -32769, -32768, -129, -128, -1, 0, 127, 128, 255, 256, 32767, 32768, 65535, 65536, 2147483647, 2147483648, 4294967295, 4294967296}

func TestC15(t *testing.T) {
	c := core.New(t, "C15")
	defer c.Finish()
	if !c.ReplayIsFor("flagpair", "run") {
		return
	}
	c.Rule("generated code: integer schemas whose minimum/maximum/exclusive bounds (boolean or numeric form, one- or two-sided) lie on, next to or between the 8/16/32-bit signed and unsigned limits, at required/optional/nullable/named-definition/array-item positions, generated twice: with and without --min-sized-ints; documents: every integer on and next to each stated bound and each type limit (int64 range, R2), valid and invalid; oracle: the two programs give equal verdicts and equal values, and both agree with the reference interval; non-trivial = probe within 1 of a type limit or of a stated bound; distinct by sha256(schema,document)")
	c.Assume("R2: document integers inside the int64 range", "R1", "R3")
	eval := func(r *core.Replay) (bool, string, error) {
		switch r.Check {
		case "flagpair":
			if len(r.Cases) != 2 {
				return false, "", fmt.Errorf("flag pair needs two cases")
			}
			pc := &pairCase{ref: &RunCase{Case: r.Cases[0], Jobs: r.Jobs}, inline: &RunCase{Case: r.Cases[1], Jobs: r.Jobs}, rootType: progRoot, groups: map[string][]string{}, la: "with --min-sized-ints", lb: "without the flag"}
			var msgs []string
			err := evalPairs(nil, []*pairCase{pc}, func(_ *pairCase, _ *core.Job, key, msg string) { msgs = append(msgs, msg) })
			return len(msgs) > 0, strings.Join(msgs, "\n"), err
		case "run":
			return runReplayEval(stdJudge)(r)
		}
		return false, "", nil
	}
	if c.RunReplay(eval) {
		return
	}
	c.Regressions(eval)
	prof := &sgen.Profile{MaxDepth: 2, MinProps: 3, MaxProps: 7, MinDefs: 1, MaxDefs: 3, ArrayDepth: 1,
		WInteger: 10, WRef: 4, WArray: 2, WObject: 1, WEnum: 1,
		DefWeights:  map[string]int{"integer": 5, "object": 1},
		PConstraint: 0.7, PNullable: 0.3, PRequired: 0.5, MinSizedBounds: true,
		Avoid: c.Avoid, Excluded: c.ExcludedMap(), Sat: docs.Satisfiable}
	o := docOpts(c)
	var pairs []*pairCase
	res := c.Rapid("flagpairs", c.N(160, 4000), 0, func(rt *rapid.T) {
		f := prof.File(rt, "prog.json")
		if hasIntegerEnum(f) && c.Avoid("enums.typed_integer_min_sized") {
			c.ExcludedMap()["enums.typed_integer_min_sized"]++
			stripIntegerEnums(f)
		}
		if c.Avoid("minsized.uint8_array_items") {
			widenIntegerItems(c, f)
		}
		if rapid.IntRange(0, 2).Draw(rt, "allofrevisit") == 0 {
			// a definition whose integer bounds coincide with the limits of the chosen type, referenced
			// directly and through an allOf list (the list visits the property schemas a second time)
			if c.Avoid("minsized.allof_ref_revisit") {
				c.ExcludedMap()["minsized.allof_ref_revisit"]++
			} else {
				lim := rapid.SampledFrom([][2]float64{{0, 255}, {-128, 127}, {0, 65535}, {-32768, 32767}, {0, 4294967295}, {0, 200}, {-5, 127}}).Draw(rt, "revisitlimits")
				lo, hi := lim[0], lim[1]
				sized := &model.Node{Kind: model.KObject, Props: []model.Prop{{Name: "n", Node: &model.Node{Kind: model.KInteger, Minimum: &lo, Maximum: &hi}}}, Required: []string{"n"}}
				f.Defs = append(f.Defs, model.Def{Name: "ZSized", Node: sized})
				ref := func() *model.Node { return &model.Node{Kind: model.KRef, Ref: "#/$defs/ZSized", Target: sized} }
				extra := &model.Node{Kind: model.KObject, Props: []model.Prop{{Name: "q", Node: &model.Node{Kind: model.KBoolean}}}}
				f.Root.Props = append(f.Root.Props, model.Prop{Name: "zdirect", Node: ref()}, model.Prop{Name: "zmerged", Node: &model.Node{Kind: model.KAllOf, Branches: []*model.Node{ref(), extra}}})
				f.Root.Required = append(f.Root.Required, "zdirect", "zmerged")
				c.Count("shape.allof_revisits_sized_definition")
			}
		}
		on, off := baseConfig(), baseConfig()
		on.MinSizedInts = true
		csOn := caseOf(on, []string{f.RelPath}, f)
		csOff := caseOf(off, []string{f.RelPath}, f)
		countShapes(c, f, csOn.Config)
		oo := *o
		oo.AllProps, oo.NoNulls = true, true
		base, ok := docs.Valid(rt, f.Root, &oo)
		if !ok {
			c.Count("doc.no_valid")
			return
		}
		var jobs []core.Job
		add := func(v jv.V, label string, nt bool) {
			viol := oracle.Validate(f.Root, v)
			j := core.Job{Type: progRoot, Op: "json", Doc: string(v.Marshal()), Label: label, Remarshal: true}
			if len(viol) == 0 {
				j.Expect = "accept"
				j.ExpectVal = expJSON(docs.Expect(f.Root, v))
			} else {
				for _, x := range viol {
					if x.Rule == "ambiguous-int" || x.Rule == "null" {
						return
					}
				}
				j.Expect = "reject"
				j.Rule = viol[0].String()
			}
			jobs = append(jobs, j)
			c.Count("doc." + j.Expect)
			if nt {
				c.NonTrivial(csOn.Files[0].Text, j.Doc)
			}
		}
		add(base, "valid", false)
		for _, p := range docs.Positions(f.Root, base) {
			if p.Node.Kind != model.KInteger || p.Val.K == jv.Null {
				continue
			}
			n := 0
			for _, pr := range docs.Probes(p.Node, typeLimits, false) {
				if n >= 60 {
					break
				}
				n++
				add(p.Replace(pr.V), "probe", true)
			}
		}
		pairs = append(pairs, &pairCase{ref: &RunCase{Case: csOn, Jobs: jobs}, inline: &RunCase{Case: csOff, Jobs: jobs}, rootType: progRoot, groups: map[string][]string{}, la: "with --min-sized-ints", lb: "without the flag"})
		c.Sample(sampleOf(csOn, jobs))
	})
	if res.Failed {
		c.Infra("generation failed: " + core.Clip(res.Msg, 500))
		return
	}
	seen := map[string]bool{}
	report := func(pc *pairCase, j *core.Job, key, msg string) {
		if c.Survey() {
			c.SurveyAdd(keyClass(key), msg)
			c.SurveyReplay(keyClass(key), &core.Replay{Check: "flagpair", Cases: []*gen.Case{pc.ref.Case, pc.inline.Case}, Jobs: jobsOf(j), Observed: msg})
			return
		}
		if seen[keyClass(key)] {
			return
		}
		seen[keyClass(key)] = true
		c.Violation(keyClass(key), msg, &core.Replay{Check: "flagpair", Cases: []*gen.Case{pc.ref.Case, pc.inline.Case}, Jobs: jobsOf(j), Observed: msg, Expected: "same verdict and value with and without --min-sized-ints, both equal to the reference interval"})
	}
	for lo := 0; lo < len(pairs); lo += 80 {
		hi := lo + 80
		if hi > len(pairs) {
			hi = len(pairs)
		}
		if err := evalPairs(c, pairs[lo:hi], report); err != nil {
			c.Infra(err.Error())
			return
		}
	}
	c.Extra("pairs", len(pairs))
}

func stripIntegerEnums(f *model.File) {
	fix := func(n *model.Node) {
		if n.Kind == model.KEnum && n.EnumType == "integer" {
			n.Kind = model.KInteger
			n.EnumVals = nil
			n.EnumType = ""
		}
	}
	model.Walk(f.Root, fix)
	for _, d := range f.Defs {
		model.Walk(d.Node, fix)
	}
}

// widenIntegerItems: known finding minsized.uint8_array_items — integer element
// schemas (inline or via $ref) lose their upper bound so that they cannot become
// uint8.
func widenIntegerItems(c *core.Ctx, f *model.File) {
	fix := func(n *model.Node) {
		if n.Kind != model.KArray || n.Items == nil {
			return
		}
		it := n.Items.Resolve()
		if it != nil && it.Kind == model.KInteger && (it.Maximum != nil || it.ExclMax != nil) {
			it.Maximum, it.ExclMax = nil, nil
			c.ExcludedMap()["minsized.uint8_array_items"]++
		}
	}
	model.Walk(f.Root, fix)
	for _, d := range f.Defs {
		model.Walk(d.Node, fix)
	}
}
