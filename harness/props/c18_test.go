package props

import (
	"fmt"
	"go/parser"
	"go/token"
	"os"
	"path/filepath"
	"strings"
	"testing"
	"time"

	"pgregory.net/rapid"

	"verif/harness/core"
	"verif/harness/gen"
	"verif/harness/jv"
	"verif/harness/model"
)

// ---- (a) arbitrary / mutated content

var hostileValues = []string{`null`, `5`, `-1`, `1.5`, `"x"`, `""`, `true`, `false`, `[]`, `{}`, `[1]`, `["a","b"]`, `{"a":null}`, `[null]`, `1e999`,
	`99999999999999999999999999`, `{"type":"object"}`, `[[[[[[]]]]]]`, `{"$ref":"#"}`, `"object"`, `["string","null","integer"]`, `[{"type":"string"}]`}

type pathStep struct {
	key string
	idx int
}

func collectPaths(v jv.V, cur []pathStep, out *[][]pathStep) {
	switch v.K {
	case jv.Obj:
		for _, kv := range v.O {
			p := append(append([]pathStep{}, cur...), pathStep{key: kv.K, idx: -1})
			*out = append(*out, p)
			collectPaths(kv.V, p, out)
		}
	case jv.Arr:
		for i, e := range v.A {
			p := append(append([]pathStep{}, cur...), pathStep{idx: i})
			*out = append(*out, p)
			collectPaths(e, p, out)
		}
	}
}

func replaceAtPath(v jv.V, path []pathStep, nv jv.V) jv.V {
	if len(path) == 0 {
		return nv
	}
	s := path[0]
	switch v.K {
	case jv.Obj:
		out := jv.V{K: jv.Obj, O: make([]jv.KV, len(v.O))}
		copy(out.O, v.O)
		for i := range out.O {
			if out.O[i].K == s.key {
				out.O[i] = jv.KV{K: s.key, V: replaceAtPath(out.O[i].V, path[1:], nv)}
				break
			}
		}
		return out
	case jv.Arr:
		out := jv.V{K: jv.Arr, A: make([]jv.V, len(v.A))}
		copy(out.A, v.A)
		if s.idx >= 0 && s.idx < len(out.A) {
			out.A[s.idx] = replaceAtPath(out.A[s.idx], path[1:], nv)
		}
		return out
	}
	return v
}

func pathString(p []pathStep) string {
	var sb strings.Builder
	for _, s := range p {
		if s.idx >= 0 {
			fmt.Fprintf(&sb, "/%d", s.idx)
		} else {
			sb.WriteString("/" + s.key)
		}
	}
	return sb.String()
}

// mutateSchema applies one type-confusing mutation to a rendered schema.
func mutateSchema(t *rapid.T, c *core.Ctx, v jv.V) (jv.V, string) {
	var paths [][]pathStep
	collectPaths(v, nil, &paths)
	if len(paths) == 0 {
		return v, "none"
	}
	p := paths[rapid.IntRange(0, len(paths)-1).Draw(t, "mutpath")]
	hv := rapid.SampledFrom(hostileValues).Draw(t, "mutvalue")
	last := p[len(p)-1]
	if hv == "null" && c.Avoid("schema.null_subschema") {
		// known finding: null where a subschema is expected
		c.ExcludedMap()["schema.null_subschema"]++
		hv = "5"
	}
	if hv == `{"$ref":"#"}` && c.Avoid("refs.hash_in_nested_position") {
		hv = "{}"
	}
	return replaceAtPath(v, p, jv.MustParse(hv)), fmt.Sprintf("%s:=%s", last.key, hv)
}

// ---- (b) injection of one ungeneratable element

var ungeneratable = []struct {
	name    string
	json    string
	defOnly bool
}{
	{"unknown-type", `{"type":"foo"}`, false},
	{"missing-definition", `{"$ref":"#/$defs/DoesNotExist"}`, false},
	{"missing-file", `{"$ref":"does-not-exist.json"}`, false},
	{"missing-file-named-like-a-declared-type", `{"$ref":"ZzDeclared"}`, false},
	{"malformed-pointer", `{"$ref":"#/not/a/definition"}`, false},
	{"empty-enum", `{"enum":[]}`, false},
	{"object-enum-value", `{"enum":[{"a":1}]}`, false},
	{"array-enum-value", `{"type":"string","enum":[["x"]]}`, false},
	{"array-definition-without-items", `{"type":"array"}`, true},
	{"unknown-type-with-format-date-time", `{"type":"junk","format":"date-time"}`, false},
	{"unknown-type-with-format-date", `{"type":"strnig","format":"date"}`, false},
	{"unknown-type-with-format-ipv4", `{"type":["junk","null"],"format":"ipv4"}`, false},
	{"unknown-type-with-format-time", `{"type":"String","format":"time"}`, false},
	{"unknown-type-with-format-ipv6", `{"type":"text","format":"ipv6"}`, false},
	{"empty-definition-name", `{"$ref":"#/$defs/"}`, false},
	{"mixed-enum-with-object-value", `{"enum":["a",1,{"x":1}]}`, false},
	{"mixed-enum-with-array-value", `{"enum":[1,"b",["x"]]}`, false},
	{"multi-type-additional-properties", `{"type":"object","properties":{"p":{"type":"string"}},"additionalProperties":{"type":["string","integer"]}}`, false},
}

type injection struct {
	what string
	site string
}

// injectInto adds the element at a random property / item / definition site.
func injectInto(t *rapid.T, c *core.Ctx, f *model.File, elem jv.V, defOnly bool) (jv.V, *injection) {
	_, isRef := elem.Get("$ref")
	root := f.Render()
	// candidate object nodes (by path) that have "properties"
	type site struct {
		path []pathStep
		kind string
	}
	var sites []site
	var walk func(v jv.V, cur []pathStep, depth int, inBranch bool)
	walk = func(v jv.V, cur []pathStep, depth int, inBranch bool) {
		if v.K != jv.Obj {
			return
		}
		if pr, ok := v.Get("properties"); ok && pr.K == jv.Obj {
			k := "property"
			if inBranch {
				k = "branch-property"
			}
			sites = append(sites, site{append(append([]pathStep{}, cur...), pathStep{key: "properties", idx: -1}), fmt.Sprintf("%s@depth%d", k, depth)})
			for _, kv := range pr.O {
				walk(kv.V, append(append([]pathStep{}, cur...), pathStep{key: "properties", idx: -1}, pathStep{key: kv.K, idx: -1}), depth+1, inBranch)
			}
		}
		if it, ok := v.Get("items"); ok && it.K == jv.Obj {
			k := "items"
			if inBranch {
				k = "branch-items"
			}
			sites = append(sites, site{append(append([]pathStep{}, cur...), pathStep{key: "items", idx: -1}), fmt.Sprintf("%s@depth%d", k, depth)})
			walk(it, append(append([]pathStep{}, cur...), pathStep{key: "items", idx: -1}), depth+1, inBranch)
		}
		for _, kw := range []string{"allOf", "anyOf"} {
			if br, ok := v.Get(kw); ok && br.K == jv.Arr {
				sites = append(sites, site{append(append([]pathStep{}, cur...), pathStep{key: kw, idx: -1}), fmt.Sprintf("branch-element@depth%d", depth)})
				for i, b := range br.A {
					walk(b, append(append([]pathStep{}, cur...), pathStep{key: kw, idx: -1}, pathStep{idx: i}), depth+1, true)
				}
			}
		}
		for _, kw := range []string{"$defs", "definitions"} {
			if ds, ok := v.Get(kw); ok && ds.K == jv.Obj && len(cur) == 0 {
				sites = append(sites, site{[]pathStep{{key: kw, idx: -1}}, "definition"})
				for _, kv := range ds.O {
					walk(kv.V, []pathStep{{key: kw, idx: -1}, {key: kv.K, idx: -1}}, 1, false)
				}
			}
		}
	}
	walk(root, nil, 0, false)
	// items of a DECLARED array type and the value schema of a map type go through other code paths
	sites = append(sites, site{nil, "definition-array-items"}, site{nil, "map-additional-properties"}, site{nil, "definition-nested-array-items"},
		site{nil, "definition-properties-next-to-allOf"}, site{nil, "definition-properties-next-to-anyOf"}, site{nil, "definition-property-items-next-to-allOf"},
		site{nil, "later-branch-property-declared-by-an-earlier-branch"})
	var usable []site
	for _, s := range sites {
		if defOnly && s.kind != "definition" {
			continue
		}
		if strings.HasPrefix(s.kind, "branch-element") && !isRef {
			continue // a whole branch is only replaced by an unresolvable reference (branches are object schemas)
		}
		if s.kind == "later-branch-property-declared-by-an-earlier-branch" && c.Avoid("branches.later_same_named_property_dropped") {
			c.ExcludedMap()["branches.later_same_named_property_dropped"]++
			continue
		}
		if strings.HasPrefix(s.kind, "branch-") && c.Avoid("branches.unresolvable_ref") {
			c.ExcludedMap()["branches.unresolvable_ref"]++
			continue
		}
		usable = append(usable, s)
	}
	if len(usable) == 0 {
		if defOnly {
			// add a definitions object
			return root.Set("$defs", jv.ObjV(jv.Field("Injected", elem))), &injection{site: "definition"}
		}
		return root, nil
	}
	s := usable[rapid.IntRange(0, len(usable)-1).Draw(t, "site")]
	switch s.kind {
	case "definition-array-items", "definition-nested-array-items":
		arr := jv.ObjV(jv.Field("type", jv.StrV("array")), jv.Field("items", elem))
		if s.kind == "definition-nested-array-items" {
			arr = jv.ObjV(jv.Field("type", jv.StrV("array")), jv.Field("items", arr))
		}
		kw := "$defs"
		if root.Has("definitions") {
			kw = "definitions"
		}
		defs, _ := root.Get(kw)
		if defs.K != jv.Obj {
			defs = jv.ObjV()
		}
		return root.Set(kw, defs.Set("InjectedArr", arr)), &injection{site: s.kind}
	case "definition-properties-next-to-allOf", "definition-properties-next-to-anyOf", "definition-property-items-next-to-allOf":
		// a declared object that has properties AND a composition list: the fault sits among the
		// sibling properties, not in a branch
		kw := "allOf"
		if strings.HasSuffix(s.kind, "anyOf") {
			kw = "anyOf"
		}
		bad := elem
		if strings.Contains(s.kind, "items") {
			bad = jv.ObjV(jv.Field("type", jv.StrV("array")), jv.Field("items", elem))
		}
		comp := jv.ObjV(jv.Field("type", jv.StrV("object")),
			jv.Field("properties", jv.ObjV(jv.Field("ok", jv.ObjV(jv.Field("type", jv.StrV("string")))), jv.Field("zzInjected", bad))),
			jv.Field(kw, jv.ArrV(jv.ObjV(jv.Field("type", jv.StrV("object")), jv.Field("properties", jv.ObjV(jv.Field("q", jv.ObjV(jv.Field("type", jv.StrV("integer"))))))))))
		dkw := "$defs"
		if root.Has("definitions") {
			dkw = "definitions"
		}
		defs, _ := root.Get(dkw)
		if defs.K != jv.Obj {
			defs = jv.ObjV()
		}
		return root.Set(dkw, defs.Set("InjectedComp", comp)), &injection{site: s.kind}
	case "later-branch-property-declared-by-an-earlier-branch":
		// allOf[{x: string}, {x: <fault>}]: the faulty schema is a property of an input schema like any other
		props, _ := root.Get("properties")
		if props.K != jv.Obj {
			props = jv.ObjV()
		}
		br := func(x jv.V) jv.V {
			return jv.ObjV(jv.Field("type", jv.StrV("object")), jv.Field("properties", jv.ObjV(jv.Field("x", x))))
		}
		comp := jv.ObjV(jv.Field("allOf", jv.ArrV(br(jv.ObjV(jv.Field("type", jv.StrV("string")))), br(elem))))
		return root.Set("properties", props.Set("zzInjectedOverlap", comp)), &injection{site: s.kind}
	case "map-additional-properties":
		props, _ := root.Get("properties")
		if props.K != jv.Obj {
			props = jv.ObjV()
		}
		m := jv.ObjV(jv.Field("type", jv.StrV("object")), jv.Field("additionalProperties", elem))
		return root.Set("properties", props.Set("zzInjectedMap", m)), &injection{site: s.kind}
	}
	cur := root
	for _, st := range s.path {
		if st.idx >= 0 {
			cur = cur.A[st.idx]
		} else {
			cur, _ = cur.Get(st.key)
		}
	}
	var nv jv.V
	if strings.Contains(s.kind, "items") {
		nv = elem
	} else if strings.HasPrefix(s.kind, "branch-element") {
		nv = jv.V{K: jv.Arr, A: append(append([]jv.V{}, cur.A...), elem)}
	} else {
		nv = cur.Set("zzInjected", elem)
	}
	return replaceAtPath(root, s.path, nv), &injection{site: s.kind}
}

// ---- judging

func parseableGo(src string) bool {
	_, err := parser.ParseFile(token.NewFileSet(), "x.go", src, parser.SkipObjectResolution)
	return err == nil
}

type c18Case struct {
	Kind    string // content | inject | config
	Case    *gen.Case
	Argv    []string          // explicit argv (config faults)
	Pre     map[string]string // pre-existing files
	MustErr bool              // the run must fail
	What    string
}

// evalC18InProc: DoFile/Sources return or error, never panic; MustErr cases
// return an error.
func evalC18InProc(cc *c18Case) (bool, string) {
	res := gen.Run(cc.Case)
	if res.Panic != "" {
		return true, "the generator panicked (" + cc.What + "): " + core.Clip(res.Panic, 500)
	}
	if cc.MustErr && res.Err == "" {
		return true, "the run succeeded although the schema contains an element that cannot be generated (" + cc.What + ")"
	}
	return false, ""
}

var c18HangConfirmed bool

func evalC18CLI(cc *c18Case) (bool, string, error) {
	res, err := gen.RunCLI(cc.Case, cc.Pre, cc.Argv, 30*time.Second, false)
	if err != nil {
		return false, "", err
	}
	if res.TimedOut && c18HangConfirmed {
		// a hang was already confirmed with the long limit in this process (shrinking re-runs
		// variations of that case): the short limit decides
		return true, "the tool did not terminate within 30 s (" + cc.What + "; a 300 s run of a related case did not end either)", nil
	}
	if res.TimedOut {
		// re-run alone with a long limit before calling it a hang
		res2, err := gen.RunCLI(cc.Case, cc.Pre, cc.Argv, 300*time.Second, false)
		if err != nil {
			return false, "", err
		}
		if res2.TimedOut {
			c18HangConfirmed = true
			return true, "the tool did not terminate within 300 s (" + cc.What + ")", nil
		}
		res = res2
	}
	if strings.Contains(res.Stderr, "panic:") || strings.Contains(res.Stderr, "goroutine ") || res.Exit == 2 && strings.Contains(res.Stderr, "runtime error") {
		return true, fmt.Sprintf("the tool panicked (%s): %s", cc.What, core.Clip(res.Stderr, 400)), nil
	}
	if res.Exit == 0 {
		if cc.MustErr {
			return true, fmt.Sprintf("exit status 0 although the input must be rejected (%s); stdout %d bytes, changes %v", cc.What, len(res.Stdout), res.Changes), nil
		}
		// complete output: stdout (default -o -) parses, every written file parses
		if res.Stdout != "" && !parseableGo(res.Stdout) {
			return false, "", nil // unparsable successful output is C01's subject
		}
		return false, "", nil
	}
	if strings.TrimSpace(res.Stderr) == "" {
		return true, fmt.Sprintf("non-zero exit status %d without a diagnostic on stderr (%s)", res.Exit, cc.What), nil
	}
	if res.Stdout != "" {
		return true, fmt.Sprintf("the run failed (exit %d) but wrote %d bytes to stdout (%s)", res.Exit, len(res.Stdout), cc.What), nil
	}
	if len(res.Changes) > 0 {
		return true, fmt.Sprintf("the run failed (exit %d) but changed the file tree: %v (%s)", res.Exit, res.Changes, cc.What), nil
	}
	return false, "", nil
}

func TestC18(t *testing.T) {
	c := core.New(t, "C18")
	defer c.Finish()
	defer gen.CleanupCLI()
	c.Rule("(a) content: valid schemas with one type-confusing mutation at a random JSON position (wrong-typed keyword values, numbers for strings, 1e999, deep arrays, $ref '#' anywhere), truncations at a random byte, random bytes, as .json and .yaml; (b) injection: an accepted schema plus exactly one ungeneratable element (unknown type, $ref to a missing definition / missing file / malformed pointer, empty enum, object or array as enum value, array definition without items, multi-type additionalProperties) at a random property / items / definition site at depth 0-3, also inside allOf/anyOf branches and in a second file; (c) configuration faults: mapping flags without '=', unknown flag, no arguments, no package, missing file, directory or dangling symlink as input, one output file mapped to two packages, an output path below a regular file; oracle in-process: never a panic, (b) returns an error; oracle CLI: exit 0, or exit != 0 with non-empty stderr; for (b)/(c)/failing (a) additionally empty stdout and a byte- and mtime-identical file tree (pre-existing output files included); never a panic trace; a 30 s limit hit is re-run alone with 300 s before it counts as a hang; non-trivial = injected fault below the root or in a non-first file, or a mutated schema that the tool rejects; distinct by sha256(files,args)")
	c.Assume("R8: no http(s) references, stdin is /dev/null")
	eval := func(r *core.Replay) (bool, string, error) {
		cc := &c18Case{Kind: r.Note, Case: r.Case, Argv: r.Argv, MustErr: strings.Contains(r.Expected, "must fail"), What: r.Note}
		if r.Check == "cli-hang" {
			// witness of a known non-termination: a short limit keeps the replay cheap
			res, err := gen.RunCLI(cc.Case, nil, cc.Argv, 15*time.Second, false)
			if err != nil {
				return false, "", err
			}
			if res.TimedOut {
				return true, "the tool did not terminate within 15 s on a 1 kB schema (" + cc.What + ")", nil
			}
			return false, "", nil
		}
		if strings.HasPrefix(r.Check, "cli") {
			cc.Pre = map[string]string{"out/existing.go": "package keep\n"}
			return evalC18CLI(cc)
		}
		f, m := evalC18InProc(cc)
		return f, m, nil
	}
	if c.RunReplay(eval) {
		return
	}
	c.Regressions(eval)
	prof := fullMixProfile(c)
	prof.HostileText = false
	prof.MaxProps = 5
	var last *core.Replay
	lastKey := ""
	iter := 0
	cliEvery := 6
	expectedOf := func(cc *c18Case) string {
		if cc.MustErr {
			return "must fail: non-zero status, diagnostic on stderr, empty stdout, file tree untouched; never a panic"
		}
		return "status 0 with output, or non-zero status with a diagnostic and nothing written; never a panic"
	}
	res := c.Rapid("faults", c.N(1500, 40000), 0, func(rt *rapid.T) {
		f := prof.File(rt, "prog.json")
		cfg := baseConfig()
		kind := rapid.SampledFrom([]string{"content", "content", "inject", "inject", "inject", "config", "names", "content", "inject", "inject", "config", "content"}).Draw(rt, "kind")
		cc := &c18Case{Kind: kind}
		switch kind {
		case "content":
			v := f.Render()
			var text string
			nullInYAML, forceJSON := false, false
			switch rapid.IntRange(0, 6).Draw(rt, "contentkind") {
			case 6:
				// a null where a subschema is expected (property value, definition, branch), in a file
				// that goes through the YAML loader
				if c.Avoid("schema.null_subschema") {
					c.ExcludedMap()["schema.null_subschema"]++
					text = string(v.Indent())
					cc.What = "unchanged (null subschema excluded)"
					break
				}
				var paths [][]pathStep
				collectPaths(v, nil, &paths)
				var cands [][]pathStep
				for _, p := range paths {
					if len(p) >= 2 && (p[len(p)-2].key == "properties" || p[len(p)-2].key == "$defs" || p[len(p)-2].key == "definitions" || p[len(p)-2].key == "allOf" || p[len(p)-2].key == "anyOf") {
						cands = append(cands, p)
					}
				}
				if len(cands) == 0 {
					text = string(v.Indent())
					cc.What = "unchanged (no subschema position)"
					break
				}
				p := cands[rapid.IntRange(0, len(cands)-1).Draw(rt, "nullpath")]
				text = string(replaceAtPath(v, p, jv.NullV()).Indent())
				cc.What = "null subschema at " + pathString(p) + " in a YAML file"
				nullInYAML = true
			case 0, 1, 2:
				mv, what := mutateSchema(rt, c, v)
				cc.What = "mutation " + what
				text = string(mv.Indent())
			case 3:
				full := string(v.Indent())
				cut := rapid.IntRange(0, len(full)).Draw(rt, "cut")
				text = full[:cut]
				cc.What = "truncation"
			case 4:
				text = string(rapid.SliceOfN(rapid.Byte(), 0, 200).Draw(rt, "bytes"))
				cc.What = "random bytes"
				if rapid.Bool().Draw(rt, "trailing") {
					// a complete document followed by something that is not JSON
					if c.Avoid("input.trailing_garbage") {
						c.ExcludedMap()["input.trailing_garbage"]++
					} else {
						text = string(v.Indent()) + rapid.SampledFrom([]string{" junk", "\n}", "\n{\"type\": \"bogus\"", " ]", "\n\x00"}).Draw(rt, "garbage")
						cc.What = "trailing garbage after a complete JSON document"
						cc.MustErr = true
						forceJSON = true
					}
				}
			default:
				mv, what := mutateSchema(rt, c, v)
				mv2, what2 := mutateSchema(rt, c, mv)
				cc.What = "mutations " + what + " " + what2
				text = string(mv2.Indent())
			}
			name := "prog.json"
			if (rapid.IntRange(0, 4).Draw(rt, "asyaml") == 0 || nullInYAML) && !forceJSON {
				name = "prog.yaml"
			}
			cc.Case = &gen.Case{Files: []gen.FileText{{RelPath: name, Text: text}}, Inputs: []string{name}, Config: cfg}
		case "names":
			// a VALID schema whose type names coincide with what the emitted methods declare locally
			// (Plain, Plain_0, ...): the run has to end, and end well; always through the real CLI
			nm := rapid.SampledFrom([]string{"Plain", "plain", "PLAIN", "Plain_0", "Raw"}).Draw(rt, "localname")
			one := 1
			def := &model.Node{Kind: model.KObject, Props: []model.Prop{{Name: "id", Node: &model.Node{Kind: model.KString, MinLength: &one}}}, Required: []string{"id"}}
			f.Defs = append(f.Defs, model.Def{Name: nm, Node: def})
			if f.Root.Kind == model.KObject {
				f.Root.Props = append(f.Root.Props, model.Prop{Name: "zlocalname", Node: &model.Node{Kind: model.KRef, Ref: "#/$defs/" + nm, Target: def}})
			}
			switch rapid.IntRange(0, 2).Draw(rt, "localnameroot") {
			case 0:
				f.Title, cfg.StructNameFromTitle = "plain", true
			case 1:
				cfg.Mappings = []gen.Mapping{{ID: f.ID, Package: cfg.DefaultPackage, Output: "-", RootType: "Plain"}}
			}
			cfg.ExtraImports = rapid.Bool().Draw(rt, "localnameyaml")
			cc.Case = caseOf(cfg, []string{f.RelPath}, f)
			cc.Argv = cc.Case.Config.Args()
			cc.Argv = append(cc.Argv, cc.Case.Inputs...)
			cc.What = "valid schema with a type named " + nm
		case "inject":
			// the host schema must be accepted as it is
			host := caseOf(cfg, []string{f.RelPath}, f)
			if r := gen.Run(host); !r.OK() {
				c.Count("inject.host_not_accepted")
				return
			}
			u := ungeneratable[rapid.IntRange(0, len(ungeneratable)-1).Draw(rt, "element")]
			if sw := map[string]string{"empty-definition-name": "refs.empty_definition_name", "mixed-enum-with-object-value": "enums.mixed_with_non_primitive_value", "mixed-enum-with-array-value": "enums.mixed_with_non_primitive_value"}[u.name]; sw != "" && c.Avoid(sw) {
				c.ExcludedMap()[sw]++
				u = ungeneratable[0]
			}
			if u.name == "missing-file-named-like-a-declared-type" {
				if c.Avoid("refs.bare_name_equals_declared_type") {
					c.ExcludedMap()["refs.bare_name_equals_declared_type"]++
					u = ungeneratable[2]
				} else {
					// there is no file ZzDeclared; a definition of that name is declared
					f.Defs = append(f.Defs, model.Def{Name: "ZzDeclared", Node: &model.Node{Kind: model.KObject, Props: []model.Prop{{Name: "q", Node: &model.Node{Kind: model.KString}}}}})
				}
			}
			mv, inj := injectInto(rt, c, f, jv.MustParse(u.json), u.defOnly)
			if inj == nil {
				c.Count("inject.no_site")
				return
			}
			cc.What = u.name + " at " + inj.site
			cc.MustErr = true
			text := string(mv.Indent())
			if sf := rapid.IntRange(0, 5).Draw(rt, "secondfile"); sf == 1 {
				// neither file states an id and the first one only names one good definition of the
				// second: the fault elsewhere in the second file must still be reported
				kw := "$defs"
				if mv.Has("definitions") {
					kw = "definitions"
				}
				defs, _ := mv.Get(kw)
				if defs.K != jv.Obj {
					defs = jv.ObjV()
				}
				sv := mv.Del("$id").Del("id").Set(kw, defs.Set("ZzGood", jv.MustParse(`{"type":"object","properties":{"ok":{"type":"string"}}}`)))
				first := `{"type":"object","properties":{"other":{"$ref":"second.json#/` + kw + `/ZzGood"}}}`
				cc.Case = &gen.Case{Files: []gen.FileText{{RelPath: "first.json", Text: first}, {RelPath: "second.json", Text: string(sv.Indent())}}, Inputs: []string{"first.json"}, Config: cfg}
				cc.What += " in a referenced second file (no ids, reference names another definition)"
				c.Count("inject.second_file_without_ids")
			} else if sf == 0 {
				// the faulty schema is a second file referenced from a clean first one
				first := `{"$id":"https://example.com/first","type":"object","properties":{"other":{"$ref":"second.json"}}}`
				cc.Case = &gen.Case{Files: []gen.FileText{{RelPath: "first.json", Text: first}, {RelPath: "second.json", Text: text}}, Inputs: []string{"first.json"}, Config: cfg}
				cc.What += " in a referenced second file"
				c.Count("inject.second_file")
			} else {
				cc.Case = &gen.Case{Files: []gen.FileText{{RelPath: "prog.json", Text: text}}, Inputs: []string{"prog.json"}, Config: cfg}
			}
			c.Count("inject." + u.name)
			c.Count("inject.site." + strings.SplitN(inj.site, "@", 2)[0])
		case "config":
			host := caseOf(cfg, []string{f.RelPath}, f)
			cc.Case = host
			cc.MustErr = true
			switch rapid.IntRange(0, 9).Draw(rt, "configkind") {
			case 0:
				cc.Argv, cc.What = []string{"-p", "x", "--schema-package", "no-equals-sign", "prog.json"}, "--schema-package without '='"
			case 1:
				cc.Argv, cc.What = []string{"-p", "x", "--schema-output", "nope", "prog.json"}, "--schema-output without '='"
			case 2:
				cc.Argv, cc.What = []string{"-p", "x", "--schema-root-type", "nope", "prog.json"}, "--schema-root-type without '='"
			case 3:
				cc.Argv, cc.What = []string{"-p", "x", "--no-such-flag", "prog.json"}, "unknown flag"
			case 4:
				cc.Argv, cc.What = []string{"-p", "x"}, "no arguments"
			case 5:
				cc.Argv, cc.What = []string{"prog.json"}, "no package"
			case 6:
				cc.Argv, cc.What = []string{"-p", "x", "missing.json"}, "missing file"
			case 7:
				cc.Argv, cc.What = []string{"-p", "x", "."}, "directory as input"
			case 8:
				cc.Argv, cc.What = []string{"-p", "x", "-o", "out/gen.go", "prog.json", "dangling.json"}, "second input is a dangling name; first is fine"
			default:
				second := `{"$id":"https://example.com/second","type":"object","properties":{"a":{"type":"string"}}}`
				cc.Case = &gen.Case{Files: append(append([]gen.FileText{}, host.Files...), gen.FileText{RelPath: "second.json", Text: second}), Inputs: host.Inputs, Config: cfg}
				cc.Argv = []string{"--schema-package", f.ID + "=pkga", "--schema-package", "https://example.com/second=pkgb", "--schema-output", f.ID + "=out/same.go", "--schema-output", "https://example.com/second=out/same.go", "prog.json", "second.json"}
				cc.What = "one output file mapped to two packages"
			}
			c.Count("config." + strings.SplitN(cc.What, " ", 2)[0])
		}
		iter++
		c.Eval(1)
		c.Count("kind." + kind)
		c.Program(1)
		var failed bool
		var msg string
		check := "inproc"
		if cc.Argv == nil {
			failed, msg = evalC18InProc(cc)
		}
		if !failed && (cc.Argv != nil || iter%cliEvery == 0) {
			check = "cli"
			cc.Pre = map[string]string{"out/existing.go": "package keep\n"}
			var err error
			failed, msg, err = evalC18CLI(cc)
			if err != nil {
				c.Infra(err.Error())
				return
			}
			c.Count("cli_runs")
			c.Eval(1)
		}
		if cc.MustErr && (strings.Contains(cc.What, "depth") && !strings.Contains(cc.What, "depth0") || strings.Contains(cc.What, "second file")) || kind == "content" {
			c.NonTrivial(cc.Case.Files[len(cc.Case.Files)-1].Text, strings.Join(cc.Argv, " "), check)
		}
		smp := describeCase(cc.Case)
		smp["what"] = cc.What
		if cc.Argv != nil {
			smp["argv"] = cc.Argv
		}
		c.Sample(smp)
		if failed {
			key := kind + ":" + normMsg(firstLine(msg))
			if c.Survey() {
				c.SurveyAdd(key, msg+"\n"+cc.What)
				c.SurveyReplay(key, &core.Replay{Check: check, Case: cc.Case, Argv: cc.Argv, Note: cc.What, Expected: expectedOf(cc), Observed: msg})
				return
			}
			last = &core.Replay{Check: check, Case: cc.Case, Argv: cc.Argv, Note: cc.What, Expected: expectedOf(cc), Observed: msg}
			lastKey = key
			rt.Fatalf("%s", msg)
		}
	})
	if res.Failed {
		if last != nil {
			c.Violation(lastKey, last.Observed, last)
		} else {
			c.Infra("rapid failed without a case: " + core.Clip(res.Msg, 400))
		}
	}
	_ = os.Remove
	_ = filepath.Join
}
