package props

import (
	"fmt"
	"strings"
	"testing"

	"pgregory.net/rapid"

	"verif/harness/batch"
	"verif/harness/core"
	"verif/harness/docs"
	"verif/harness/gen"
	"verif/harness/jv"
	"verif/harness/model"
	"verif/harness/sgen"
)

// evalGroups runs the cases and hands every group of jobs that share the same
// document (json / yaml flow / yaml block) to cmp.
func evalGroups(c *core.Ctx, cases []*RunCase, groupSize int, cmp func(rc *RunCase, js []*core.Job, rs []*batch.Result)) error {
	var progs []*batch.Program
	for i, rc := range cases {
		res := gen.Run(rc.Case)
		if !res.OK() {
			rc.GenErr = res.Err + res.Panic
			if c != nil {
				c.Count("gen.rejected")
			}
			continue
		}
		p := batch.SinglePkg(fmt.Sprintf("p%05d", i), res.Sources["-"])
		for k := range rc.Jobs {
			j := rc.Jobs[k]
			j.ID = fmt.Sprintf("%s.%d", p.Name, k)
			p.Jobs = append(p.Jobs, j)
		}
		p.Tag = rc
		progs = append(progs, p)
	}
	results, _, err := batch.Run(progs, 12)
	if err != nil {
		return err
	}
	for _, p := range progs {
		rc := p.Tag.(*RunCase)
		if p.BuildErr != "" {
			rc.GenErr = p.BuildErr
			if c != nil {
				c.Count("build.failed")
				if c.Survey() {
					c.SurveyAdd("BUILD "+normMsg(p.BuildErr), p.BuildErr)
				}
			}
			continue
		}
		if c != nil {
			c.Program(1)
		}
		for k := 0; k+groupSize <= len(p.Jobs); k += groupSize {
			var js []*core.Job
			var rs []*batch.Result
			skip := false
			for g := 0; g < groupSize; g++ {
				j := &p.Jobs[k+g]
				r := results[j.ID]
				if r == nil {
					return fmt.Errorf("no result for %s", j.ID)
				}
				if r.Skipped != "" {
					skip = true
				}
				js = append(js, j)
				rs = append(rs, r)
			}
			if skip {
				if c != nil {
					c.Count("job.skipped")
				}
				continue
			}
			if c != nil {
				c.Eval(groupSize)
			}
			cmp(rc, js, rs)
		}
	}
	return nil
}

func yamlJudge(js []*core.Job, rs []*batch.Result) (string, string) {
	j0, r0 := js[0], rs[0]
	// the JSON path is judged against the oracle by its own property checks; here only the relation counts
	for g := 1; g < len(js); g++ {
		rg := rs[g]
		if rg.Panic != nil || rg.Crash != "" {
			return "yaml-panic:" + j0.Label, fmt.Sprintf("UnmarshalYAML panicked (%s, %s): %s", j0.Label, js[g].Op+"/"+js[g].Label, rg.ErrText())
		}
		if r0.Accepted() != rg.Accepted() {
			return "verdict:" + j0.Label, fmt.Sprintf("verdict differs (%s): JSON %s, YAML(%s) %s; doc %s", j0.Label+" "+j0.Rule, r0.ErrText(), js[g].Label, rg.ErrText(), core.Clip(j0.Doc, 300))
		}
		if r0.Accepted() && r0.Remarshal != nil && rg.Remarshal != nil {
			a, e1 := jv.Parse([]byte(*r0.Remarshal))
			b, e2 := jv.Parse([]byte(*rg.Remarshal))
			if e1 == nil && e2 == nil && !jv.Equal(a, b) {
				return "value:" + j0.Label, fmt.Sprintf("decoded value differs (%s): via JSON %s, via YAML %s; doc %s", j0.Label, core.Clip(*r0.Remarshal, 250), core.Clip(*rg.Remarshal, 250), core.Clip(j0.Doc, 200))
			}
		}
	}
	return "", ""
}

func TestC17(t *testing.T) {
	c := core.New(t, "C17")
	defer c.Finish()
	c.Rule("programs generated with --extra-imports from a profile mixing required properties, numeric bounds/multipleOf, string length/pattern, string enums and defaults (also nested objects, arrays, refs); documents: valid ones (all present, all absent, random subsets, defaults triggered) and single-fault mutants of exactly one required/bound/length/pattern/enum rule; each document is decoded through json.Unmarshal, through yaml.Unmarshal of the same text (flow style) and of a block-style rendering with quoted strings; oracle: equal accept/reject verdict and equal re-marshalled value on all three paths (and no panic); non-trivial = single-fault document or a document that triggers a default; distinct by sha256(schema,args,document)")
	c.Assume("type violations are outside the statement's list (yaml.v3 coerces scalars)", "the block rendering is parsed back with a second YAML parser (goccy) and must equal the document, else the case is discarded and counted", "R1-R6")
	eval := func(r *core.Replay) (bool, string, error) {
		rc := &RunCase{Case: r.Case, Jobs: r.Jobs}
		var msgs []string
		err := evalGroups(nil, []*RunCase{rc}, len(r.Jobs), func(_ *RunCase, js []*core.Job, rs []*batch.Result) {
			if key, msg := yamlJudge(js, rs); key != "" {
				msgs = append(msgs, msg)
			}
		})
		if rc.GenErr != "" {
			return false, "program no longer generates/builds: " + rc.GenErr, err
		}
		return len(msgs) > 0, strings.Join(msgs, "\n"), err
	}
	if c.RunReplay(eval) {
		return
	}
	c.Regressions(eval)
	o := docOpts(c)
	prof := &sgen.Profile{MaxDepth: 2, MinProps: 3, MaxProps: 7, MinDefs: 1, MaxDefs: 3, ArrayDepth: 2,
		WString: 5, WInteger: 4, WNumber: 4, WBoolean: 2, WArray: 2, WEnum: 3, WRef: 3, WObject: 3,
		DefWeights:  map[string]int{"enum": 2, "object": 2, "string": 2, "integer": 2, "number": 1},
		PConstraint: 0.5, PNullable: 0.2, PRequired: 0.5, PFormat: 0.15,
		Excluded: c.ExcludedMap(), Sat: docs.Satisfiable, FractionalIntBounds: true, UnmappedFormats: true}
	// only the JSON/YAML relation is judged here, so non-integral bounds on integers (whose
	// absolute treatment is an open C05 finding) are part of the domain
	prof.Avoid = func(sw string) bool { return sw != "ints.fractional_bounds" && c.Avoid(sw) }
	var cases []*RunCase
	kinds := map[string]bool{"required": true, "numeric": true, "string": true, "enum": true}
	res := c.Rapid("gen", c.N(220, 5000), 0, func(rt *rapid.T) {
		f := prof.File(rt, "prog.json")
		if rapid.IntRange(0, 2).Draw(rt, "percentname") == 0 && len(f.Root.Props) > 0 {
			// a property name that is not inert inside a format string
			i := rapid.IntRange(0, len(f.Root.Props)-1).Draw(rt, "percentprop")
			old := f.Root.Props[i].Name
			name := old + rapid.SampledFrom([]string{"%", "%s", "%d%", "%%", "%v_x"}).Draw(rt, "percentsuffix")
			f.Root.Props[i].Name = name
			for k, r := range f.Root.Required {
				if r == old {
					f.Root.Required[k] = name
				}
			}
			if !f.Root.IsRequired(name) && rapid.Bool().Draw(rt, "percentrequired") {
				f.Root.Required = append(f.Root.Required, name)
			}
			c.Count("shape.percent_in_property_name")
		}
		if rapid.IntRange(0, 2).Draw(rt, "longdefault") == 0 {
			// an array default with 6-9 elements (the default must be applied by both decoders)
			k := rapid.IntRange(6, 9).Draw(rt, "longdefaultn")
			a := jv.ArrV()
			for i := 0; i < k; i++ {
				a.A = append(a.A, jv.IntV(int64(rapid.IntRange(-50, 50).Draw(rt, "longdefaultv"))))
			}
			f.Root.Props = append(f.Root.Props, model.Prop{Name: "zlongdefault", Node: &model.Node{Kind: model.KArray, Items: &model.Node{Kind: model.KInteger}, Default: &a}})
			c.Count("shape.long_array_default")
		}
		if rapid.IntRange(0, 2).Draw(rt, "fracbool") == 0 {
			// integer with a non-integral bound in the draft-4 form (boolean exclusive flag)
			k := float64(rapid.IntRange(-5, 40).Draw(rt, "frack")) + 0.5
			n := &model.Node{Kind: model.KInteger}
			ex := &model.Excl{IsBool: true, B: rapid.IntRange(0, 3).Draw(rt, "fracexcl") > 0}
			if rapid.Bool().Draw(rt, "fracmin") {
				n.Minimum, n.ExclMin = &k, ex
			} else {
				n.Maximum, n.ExclMax = &k, ex
			}
			f.Root.Props = append(f.Root.Props, model.Prop{Name: "zfrac", Node: n})
			if rapid.Bool().Draw(rt, "fracreq") {
				f.Root.Required = append(f.Root.Required, "zfrac")
			}
			c.Count("shape.integer_fractional_bound_boolean_exclusive")
		}
		if c.Avoid("yaml.format_types") {
			stripFormats(c, f)
		}
		dopts := *o
		dopts.MaxArr = 8
		docs.AddDefaults(rt, f.Root, 0.3, &dopts, func(n *model.Node) bool { return defaultAllowed(c, n) })
		cfg := baseConfig()
		cfg.ExtraImports = true
		if rapid.IntRange(0, 2).Draw(rt, "minsized") == 0 {
			// the relation also has to hold under --min-sized-ints, whatever that flag does to a
			// bounded integer enum (its absolute effect is C15's open finding)
			cfg.MinSizedInts = true
			bounds := func(lo, hi int64) []jv.KV { return []jv.KV{{K: "minimum", V: jv.IntV(lo)}, {K: "maximum", V: jv.IntV(hi)}} }
			prio := &model.Node{Kind: model.KEnum, EnumType: "integer", EnumVals: []jv.V{jv.IntV(0), jv.IntV(5), jv.IntV(10)}, Noise: bounds(0, 10)}
			shift := &model.Node{Kind: model.KEnum, EnumType: "integer", EnumVals: []jv.V{jv.IntV(-1), jv.IntV(0), jv.IntV(1)}, Noise: bounds(-1, 1)}
			f.Root.Props = append(f.Root.Props, model.Prop{Name: "zprio", Node: prio}, model.Prop{Name: "zshift", Node: shift})
			c.Count("shape.min_sized_integer_enums")
		}
		cs := caseOf(cfg, []string{f.RelPath}, f)
		countShapes(c, f, cs.Config)
		rc := &RunCase{Case: cs}
		addDoc := func(v jv.V, label, rule string, nt bool) {
			text := string(v.Marshal())
			block := string(model.RenderYAML(v, false, false))
			if !yamlRoundTripOK(block, v) {
				c.Count("renderer_rejects")
				c.Extra("renderer_reject_example", core.Clip(block, 400))
				return
			}
			rc.Jobs = append(rc.Jobs,
				core.Job{Type: progRoot, Op: "json", Doc: text, Label: label, Rule: rule},
				core.Job{Type: progRoot, Op: "yaml", Doc: text, Label: "flow"},
				core.Job{Type: progRoot, Op: "yaml", Doc: block, Label: "block"})
			c.Count("doc." + strings.SplitN(label, ":", 2)[0])
			if nt {
				c.NonTrivial(cs.Files[0].Text, text)
			}
		}
		for i := 0; i < 4; i++ {
			oo := *o
			switch i {
			case 0:
				oo.AllProps = true
			case 1:
				oo.NoProps = true
			}
			v, ok := docs.Valid(rt, f.Root, &oo)
			if !ok {
				continue
			}
			triggers := false
			for _, p := range f.Root.Props {
				if p.Node.Default != nil && !v.Has(p.Name) {
					triggers = true
				}
			}
			addDoc(v, "valid", "", triggers)
			if i == 0 {
				// format probes: texts at the edge of each format's notation, at every string position
				// that states a format (mapped to a Go type or not). Nothing says which of them are valid;
				// both decoders must say the same.
				np := 0
				for _, p := range docs.Positions(f.Root, v) {
					if p.Val.K != jv.Str || p.Node == nil || p.Node.Kind != model.KString || np >= 24 {
						continue
					}
					fm := p.Node.Format
					for _, kv := range p.Node.Noise {
						if kv.K == "format" && kv.V.K == jv.Str {
							fm = kv.V.S
						}
					}
					probes := formatProbes[fm]
					if fm == "" || len(probes) == 0 {
						continue
					}
					for _, pr := range rapid.SliceOfNDistinct(rapid.SampledFrom(probes), 1, 3, func(s string) string { return s }).Draw(rt, "formatprobes") {
						addDoc(p.Replace(jv.StrV(pr)), "formatprobe:"+fm, "", true)
						np++
					}
				}
			}
			muts, _ := docs.Mutants(rt, f.Root, v, kinds, &oo)
			n := 0
			for k := range muts {
				m := &muts[k]
				if len(m.Rules) != 1 || n >= 25 {
					continue
				}
				if m.Pos.Node.Kind == model.KEnum && !allStrings(m.Pos.Node) {
					continue // the statement lists string enums
				}
				if m.Pos.Node.Kind == model.KEnum && m.Doc.K == jv.Obj {
					// non-member must itself be a string (type violations are out of scope)
					if pv := valueAt(m.Doc, m.Path); pv.K != jv.Str {
						continue
					}
				}
				n++
				addDoc(m.Doc, "fault:"+m.Rules[0], m.Rule()+"@"+m.Path, true)
			}
		}
		c.Sample(sampleOf(cs, rc.Jobs))
		cases = append(cases, rc)
	})
	if res.Failed {
		c.Infra("generation failed: " + core.Clip(res.Msg, 500))
		return
	}
	seen := map[string]bool{}
	for lo := 0; lo < len(cases); lo += batchSize {
		hi := lo + batchSize
		if hi > len(cases) {
			hi = len(cases)
		}
		err := evalGroups(c, cases[lo:hi], 3, func(rc *RunCase, js []*core.Job, rs []*batch.Result) {
			key, msg := yamlJudge(js, rs)
			if key == "" {
				return
			}
			var jobs []core.Job
			for _, j := range js {
				jobs = append(jobs, *j)
			}
			if c.Survey() {
				c.SurveyAdd(keyClass(key), msg)
				c.SurveyReplay(keyClass(key), &core.Replay{Check: "yaml", Case: rc.Case, Jobs: jobs, Observed: msg})
				return
			}
			if seen[keyClass(key)] {
				return
			}
			seen[keyClass(key)] = true
			c.Violation(keyClass(key), msg, &core.Replay{Check: "yaml", Case: rc.Case, Jobs: jobs, Expected: "same verdict and value through JSON and YAML", Observed: msg})
		})
		if err != nil {
			c.Infra(err.Error())
			return
		}
	}
}

// formatProbes: per format, texts at the edge of its notation.
var formatProbes = map[string][]string{
	"time":         {"08:30:00Z", "18:00:00+02:00", "8:30:00", "08:30", "08:30:00.5", "24:00:00", "08:30:00"},
	"date":         {"2024-02-30", "2024-2-3", "2024-02-29T00:00:00Z", "20240229", "2023-02-29", "2024-02-29"},
	"date-time":    {"2024-02-29T10:00:00", "2024-02-29 10:00:00Z", "2024-02-29T10:00:00+02:00", "2024-02-29t10:00:00z", "2024-02-29T10:00:00.123456789Z", "2024-02-29T24:00:00Z"},
	"ipv4":         {"1.2.3.04", "1.2.3", "::ffff:1.2.3.4", "1.2.3.4/24", "256.1.1.1", "1.2.3.4"},
	"ipv6":         {"::1%eth0", "1.2.3.4", "::g", "[::1]", "2001:DB8::1", "::ffff:1.2.3.4"},
	"duration":     {"30s", "1m30s", "P1D", "250ms", "PT1H", "1.5h", "-5m"},
	"email":        {"a@b", "not an email", "30s"},
	"uri":          {"http://x", "::", "1m30s"},
	"uuid":         {"00000000-0000-0000-0000-000000000000", "zz", "12h"},
	"hostname":     {"example.com", "-x-", "3h"},
	"regex":        {"^a+$", "(", "5s"},
	"json-pointer": {"/a/b", "a", "2h45m"},
	"x-custom":     {"anything", "7s"},
}

func allStrings(n *model.Node) bool {
	for _, v := range n.EnumVals {
		if v.K != jv.Str {
			return false
		}
	}
	return true
}

func valueAt(doc jv.V, path string) jv.V {
	cur := doc
	for _, seg := range strings.Split(strings.TrimPrefix(path, "/"), "/") {
		if seg == "" {
			continue
		}
		switch cur.K {
		case jv.Obj:
			v, ok := cur.Get(seg)
			if !ok {
				return jv.NullV()
			}
			cur = v
		case jv.Arr:
			i := 0
			fmt.Sscanf(seg, "%d", &i)
			if i >= len(cur.A) {
				return jv.NullV()
			}
			cur = cur.A[i]
		}
	}
	return cur
}

func stripFormats(c *core.Ctx, f *model.File) {
	visit := func(n *model.Node) {
		if n.Kind == model.KString && (n.Format == "date" || n.Format == "time") {
			n.Format = ""
			c.ExcludedMap()["yaml.format_types"]++
		}
	}
	model.Walk(f.Root, visit)
	for _, d := range f.Defs {
		model.Walk(d.Node, visit)
	}
}
