package props

import (
	"encoding/json"
	"fmt"
	"os"
	"path/filepath"
	"strings"
	"testing"
	"time"
	"unicode/utf8"

	"verif/harness/core"
	"verif/harness/gen"
)

// Native fuzz targets (thorough tier only; Go's fuzzer cannot be seeded, so a
// crasher only counts once it is re-confirmed through the deterministic replay
// path, which the driver does with the replay file written here).

func fuzzOutDir(id string) string {
	d := os.Getenv("VERIF_FUZZ_OUT")
	if d == "" {
		d = filepath.Join(os.TempDir(), "verif-fuzz-out", id)
	}
	_ = os.MkdirAll(d, 0o755)
	return d
}

func fuzzViolation(t *testing.T, id string, r *core.Replay, msg string) {
	r.Property = id
	r.Observed = msg
	b, _ := json.MarshalIndent(r, "", " ")
	p := filepath.Join(fuzzOutDir(id), fmt.Sprintf("%s-fuzz-%s.json", id, core.Hash(string(b))[:10]))
	_ = os.WriteFile(p, b, 0o644)
	t.Fatalf("VERIF-FUZZ-VIOLATION property=%s %s replay=%s", id, core.Clip(firstLine(msg), 200), p)
}

func seedSchemas(f *testing.F) {
	root := "/repo/tests/data"
	_ = filepath.Walk(root, func(p string, info os.FileInfo, err error) error {
		if err != nil || info.IsDir() {
			return nil
		}
		if strings.HasSuffix(p, ".json") || strings.HasSuffix(p, ".yaml") || strings.HasSuffix(p, ".yml") {
			if b, err := os.ReadFile(p); err == nil && len(b) < 20000 {
				f.Add(b)
			}
		}
		return nil
	})
	for _, s := range []string{
		`{}`, `[]`, `null`, `{"type":"object","properties":{"a":null}}`, `{"type":"object","properties":{"a":{"$ref":"#"}}}`,
		`{"type":"array","items":{"$ref":"#"}}`, `{"$defs":{"A":{"$ref":"#/$defs/A"}},"type":"object","properties":{"a":{"$ref":"#/$defs/A"}}}`,
		`{"type":"object","properties":{"a":{"enum":[]}}}`, `{"type":["object","null"],"allOf":[{"$ref":"#/$defs/X"}]}`,
		`{"type":"object","properties":{"a":{"type":"integer","minimum":1e999}}}`, `{"type":"object","additionalProperties":{"type":["string","integer"]}}`,
		`{"type":"object","properties":{"a":{"anyOf":[]}}}`, `{"type":"object","properties":{"a":{"allOf":[{"type":"string"},{"type":"object"}]}}}`,
		"type: object\nproperties:\n  0:\n    type: string\n", "type: object\nproperties:\n  a:\n", `{"type":"object","properties":{"a":{"type":"array"}},"definitions":{"D":{"type":"array"}}}`,
		`{"type":"object","properties":{"a":{"default":{"b":[1,{"c":null}]},"type":"object","properties":{"b":{"type":"array","items":{}}}}}}`,
		`{"type":"object","properties":{"a":{"goJSONSchema":{"type":"time.Duration","imports":["time"]}}}}`,
	} {
		f.Add([]byte(s))
	}
}

// FuzzGenerate: arbitrary bytes as a schema file; the generator must return or
// fail, never panic (C18). A fatal crash (stack overflow) is reported by the Go
// fuzzer itself.
func FuzzGenerate(f *testing.F) {
	seedSchemas(f)
	var c *core.Ctx
	f.Fuzz(func(t *testing.T, data []byte) {
		if c == nil {
			c = core.New(t, "C18")
		}
		if len(data) > 1<<16 {
			t.Skip()
		}
		// open known finding KF-C18-9 / KF-C10-3 (non-termination for reference cycles through
		// array-items anyOf lists): that input region is skipped inside the target so that the
		// campaign continues past it
		if txt := string(data); strings.Contains(txt, "anyOf") && strings.Contains(txt, "items") && strings.Contains(txt, "$ref") && c.Avoid("refs.anyof_items_cycle") {
			t.Skip()
		}
		name := "prog.json"
		if len(data) > 0 && data[len(data)-1]%4 == 3 {
			name = "prog.yaml"
		}
		for _, cfgBits := range []int{int(len(data)) % 8} {
			cfg := baseConfig()
			cfg.ExtraImports = cfgBits&1 != 0
			cfg.MinSizedInts = cfgBits&2 != 0
			cfg.OnlyModels = cfgBits&4 != 0
			cs := &gen.Case{Files: []gen.FileText{{RelPath: name, Text: string(data)}}, Inputs: []string{name}, Config: cfg}
			done := make(chan gen.Result, 1)
			go func() { done <- gen.Run(cs) }()
			var res gen.Result
			select {
			case res = <-done:
			case <-time.After(20 * time.Second):
				fuzzViolation(t, "C18", &core.Replay{Check: "cli-hang", Case: cs, Note: "native fuzz input", Expected: "status 0 with output, or non-zero status with a diagnostic and nothing written; never a panic or hang"}, "the generator did not return within 20 s on a small input (native fuzz input)")
			}
			if res.Panic != "" {
				fuzzViolation(t, "C18", &core.Replay{Check: "inproc", Case: cs, Note: "native fuzz input", Expected: "status 0 with output, or non-zero status with a diagnostic and nothing written; never a panic"}, "the generator panicked (native fuzz input): "+res.Panic)
			}
		}
	})
}

// FuzzNames: bytes -> sibling property names (separated by 0xFF) -> generator ->
// identifier / tag predicate of C14, with the open known findings skipped inside
// the target so that the campaign continues past them.
func FuzzNames(f *testing.F) {
	for _, s := range []string{"a\xffA", "foo_bar\xfffooBar\xffFoo-Bar", "日本2x\xff日本", "x1\xffx_1", "é\xffÉ", "1a\xff_1a", "ǅz\xffǆz", "*\xffwildcard", "a.b\xffa/b\xffa b",
		"ID\xffid\xffIdX", "ʰx\xffʰX", "٣\xff3", "a\u0301\xffá", "ß\xffSS\xffss"} {
		f.Add([]byte(s))
	}
	var c *core.Ctx
	f.Fuzz(func(t *testing.T, data []byte) {
		if c == nil {
			c = core.New(t, "C14")
		}
		if len(data) > 200 {
			t.Skip()
		}
		var names []string
		seen := map[string]bool{}
		for _, part := range strings.Split(string(data), "\xff") {
			if !utf8.ValidString(part) || seen[part] || len(names) >= 6 {
				continue
			}
			if !nameAllowed(c, part, true) {
				continue // open known findings: excluded input regions
			}
			seen[part] = true
			names = append(names, part)
		}
		if len(names) == 0 {
			t.Skip()
		}
		cfg := baseConfig()
		if len(data)%3 == 0 {
			cfg.Capitalizations = []string{"ID", "URL"}
		}
		nc := siblingNamesCase(names, cfg)
		st, probs, _ := staticNameCheck(nc)
		if st != "ok" || len(probs) == 0 {
			return
		}
		arr, _ := json.Marshal(names)
		fuzzViolation(t, "C14", &core.Replay{Check: "names-static", Case: nc.cs, Note: "siblings:" + string(arr), Expected: "valid exported distinct identifiers, exact tags, type-checks"}, strings.Join(probs, "\n"))
	})
}
