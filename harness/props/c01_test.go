package props

import (
	"fmt"
	"regexp"
	"strings"
	"testing"

	"pgregory.net/rapid"

	"verif/harness/core"
	"verif/harness/docs"
	"verif/harness/gen"
	"verif/harness/goast"
	"verif/harness/model"
)

// evalC01 runs the tool on the case and judges every emitted file.
// status: "ok", "rejected" (tool returned an error), "panic" (C18's subject).
func evalC01(cs *gen.Case) (status string, problems []string) {
	res := gen.Run(cs)
	if res.Panic != "" {
		return "panic", nil
	}
	if res.Err != "" {
		return "rejected", nil
	}
	if res.FormatFailed() {
		problems = append(problems, "tool could not gofmt its own output")
	}
	ps, _ := goast.CheckPackages(packagesOf(cs, &res))
	for _, p := range ps {
		if p.Kind == "infra" {
			return "infra:" + p.Msg, nil
		}
		problems = append(problems, p.String())
	}
	return "ok", problems
}

func featureSig(f *model.File, cfg gen.Config) string {
	feat := map[string]bool{}
	visit := func(n *model.Node) {
		feat[n.Kind.String()] = true
		if n.Nullable {
			feat["nullable"] = true
			feat["nullable:"+n.Kind.String()] = true
		}
		if n.Default != nil {
			feat["default:"+n.Kind.String()] = true
		}
		if n.Format != "" {
			feat["format:"+n.Format] = true
		}
		if n.Pattern != "" {
			feat["pattern"] = true
		}
		if n.MinLength != nil || n.MaxLength != nil {
			feat["strlen"] = true
		}
		if n.Minimum != nil || n.Maximum != nil || n.ExclMin != nil || n.ExclMax != nil {
			feat["bounds"] = true
		}
		if n.MultipleOf != nil {
			feat["multipleOf:"+n.Kind.String()] = true
		}
		if n.MinItems != nil || n.MaxItems != nil {
			feat["items"] = true
		}
		if n.Additional != nil {
			feat["additional"] = true
		}
	}
	model.Walk(f.Root, visit)
	for _, d := range f.Defs {
		model.Walk(d.Node, visit)
	}
	keys := make([]string, 0, len(feat))
	for k := range feat {
		keys = append(keys, k)
	}
	sortStrings(keys)
	return strings.Join(keys, ",") + "|" + strings.Join(cfg.Args(), " ")
}

func genC01Case(t *rapid.T, c *core.Ctx) (*gen.Case, *model.File) {
	prof := fullMixProfile(c)
	f := prof.File(t, "prog.json")
	dopts := &docs.Opts{}
	allow := func(n *model.Node) bool { return defaultAllowed(c, n) }
	docs.AddDefaults(t, f.Root, prof.PDefault, dopts, allow)
	for _, d := range f.Defs {
		docs.AddDefaults(t, d.Node, prof.PDefault, dopts, allow)
	}
	if rapid.IntRange(0, 3).Draw(t, "hastitle") == 0 {
		f.Title = rapid.SampledFrom([]string{"My Title", "thing", "a b-c", "Ünï cödé", "9 lives", "日本", "x*y", "  padded  "}).Draw(t, "title")
	}
	if rapid.IntRange(0, 5).Draw(t, "yaml") == 0 {
		f.Format = model.YAML
		f.RelPath = "prog.yaml"
	}
	cfg := drawOptions(t)
	return caseOf(cfg, []string{f.RelPath}, f), f
}

func TestC01(t *testing.T) {
	c := core.New(t, "C01")
	defer c.Finish()
	c.Rule("schemas from the full-mix grammar (all node kinds, constraints, nullable, defaults, formats, enums, refs, allOf/anyOf, hostile descriptions) x random option sets; each accepted case: no gofmt warning, go/parser, gofmt fixpoint, go/types against declared imports; non-trivial = accepted case whose output has >=1 method or >=2 distinct feature kinds; distinct by sha256(files,args)")
	c.Assume("Go toolchain go/parser, go/format, go/types and gc export data as reference for 'valid Go that compiles'", "extension objects are consistent (type/imports) — inconsistent ones are user error")
	eval := func(r *core.Replay) (bool, string, error) {
		st, probs := evalC01(r.Case)
		if strings.HasPrefix(st, "infra") {
			return false, "", fmt.Errorf("%s", st)
		}
		return len(probs) > 0, strings.Join(probs, "\n"), nil
	}
	if c.RunReplay(eval) {
		return
	}
	c.Regressions(eval)

	var last *core.Replay
	sigs := map[string]bool{}
	res := c.Rapid("fullmix", c.N(2500, 60000), 0, func(rt *rapid.T) {
		cs, f := genC01Case(rt, c)
		st, probs := evalC01(cs)
		c.Eval(1)
		c.Count("status." + strings.SplitN(st, ":", 2)[0])
		if strings.HasPrefix(st, "infra") {
			c.Infra(st)
			return
		}
		if st != "ok" {
			return
		}
		c.Program(1)
		sig := featureSig(f, cs.Config)
		sigs[sig] = true
		if strings.Count(sig, ",") >= 1 {
			c.NonTrivial(cs.Files[0].Text, strings.Join(cs.Config.Args(), " "))
		}
		c.Sample(describeCase(cs))
		if len(probs) > 0 && c.Survey() {
			c.SurveyAdd(surveyKey(probs), strings.Join(cs.Config.Args(), " ")+"\n"+strings.Join(probs, "\n"))
			c.SurveyReplay(surveyKey(probs), &core.Replay{Check: "typecheck", Case: cs, Observed: strings.Join(probs, "\n")})
			return
		}
		if len(probs) > 0 {
			last = &core.Replay{Check: "typecheck", Case: cs, Expected: "every emitted file parses, is gofmt-stable and type-checks", Observed: strings.Join(probs, "\n")}
			rt.Fatalf("C01: %s", probs[0])
		}
	})
	c.Extra("feature_signatures", len(sigs))
	c.Extra("rapid_passed", res.Passed)
	if res.Failed {
		if last != nil {
			c.Violation("typecheck:"+firstLine(last.Observed), firstLine(last.Observed), last)
		} else {
			c.Infra("rapid failed without a recorded case: " + core.Clip(res.Msg, 500))
		}
	}
}

func firstLine(s string) string {
	if i := strings.IndexByte(s, '\n'); i >= 0 {
		return s[:i]
	}
	return s
}

func sortStrings(a []string) {
	for i := 1; i < len(a); i++ {
		for j := i; j > 0 && a[j] < a[j-1]; j-- {
			a[j], a[j-1] = a[j-1], a[j]
		}
	}
}

var numRe = regexp.MustCompile(`[0-9]+`)
var identRe = regexp.MustCompile(`\b[A-Z][A-Za-z0-9_]*\b`)

// normMsg abstracts positions and identifiers out of a diagnostic.
func normMsg(s string) string {
	s = firstLine(s)
	s = identRe.ReplaceAllString(s, "X")
	return numRe.ReplaceAllString(s, "N")
}

func surveyKey(probs []string) string {
	for _, p := range probs {
		if !strings.Contains(p, "could not gofmt") {
			return normMsg(p)
		}
	}
	return normMsg(probs[0])
}
