package props

import (
	"fmt"
	"regexp"
	"strings"
	"testing"
	"time"

	"pgregory.net/rapid"

	"verif/harness/core"
	"verif/harness/docs"
	"verif/harness/gen"
	"verif/harness/goast"
	"verif/harness/jv"
	"verif/harness/model"
)

// evalC01 runs the tool on the case and judges every emitted file.
// status: "ok", "rejected" (tool returned an error), "panic" (C18's subject).
func evalC01(cs *gen.Case) (status string, problems []string) {
	res := gen.Run(cs)
	if res.Panic != "" {
		return "panic", nil
	}
	if res.Err != "" {
		return "rejected", nil
	}
	if res.FormatFailed() {
		problems = append(problems, "tool could not gofmt its own output")
	}
	ps, _ := goast.CheckPackages(packagesOf(cs, &res))
	for _, p := range ps {
		if p.Kind == "infra" {
			return "infra:" + p.Msg, nil
		}
		problems = append(problems, p.String())
	}
	return "ok", problems
}

// c01CLILimit bounds one generator run through the real CLI (normally
// milliseconds); exceeding it means the run does not terminate.
var c01CLILimit = 20 * time.Second

// evalC01CLI is evalC01 through the real CLI with a time limit, used for the
// schema families in which a non-terminating run has to be survivable.
func evalC01CLI(cs *gen.Case) (status string, problems []string) {
	res, err := gen.RunCLI(cs, nil, nil, c01CLILimit, false)
	if err != nil {
		return "infra:" + err.Error(), nil
	}
	if res.TimedOut {
		return "ok", []string{fmt.Sprintf("generation did not terminate within %v", c01CLILimit)}
	}
	if res.Exit != 0 {
		if strings.Contains(res.Stderr, "panic:") || strings.Contains(res.Stderr, "goroutine ") {
			return "panic", nil
		}
		return "rejected", nil
	}
	if strings.Contains(res.Stderr, "could not be formatted") {
		problems = append(problems, "tool could not gofmt its own output")
	}
	gr := gen.Result{Sources: map[string]string{"-": res.Stdout}}
	ps, _ := goast.CheckPackages(packagesOf(cs, &gr))
	for _, p := range ps {
		if p.Kind == "infra" {
			return "infra:" + p.Msg, nil
		}
		problems = append(problems, p.String())
	}
	return "ok", problems
}

// genC01Mixed: the full-mix grammar with allOf/anyOf branches of every kind
// (null, primitives, enums, arrays, references to any definition) and
// composites as array items and definitions.
func genC01Mixed(t *rapid.T, c *core.Ctx) (*gen.Case, *model.File) {
	prof := fullMixProfile(c)
	prof.MixedBranches = true
	prof.WAllOf, prof.WAnyOf = prof.WAllOf+3, prof.WAnyOf+5
	prof.PDefault = 0
	f := prof.File(t, "prog.json")
	cfg := baseConfig()
	cfg.ExtraImports = rapid.Bool().Draw(t, "extraImports")
	cfg.OnlyModels = rapid.IntRange(0, 5).Draw(t, "onlyModels") == 0
	cfg.MinSizedInts = rapid.IntRange(0, 3).Draw(t, "minSizedInts") == 0
	return caseOf(cfg, []string{f.RelPath}, f), f
}

// genC01Cycles: 1-4 object definitions that refer to themselves and to each
// other through every kind of link (optional/required property, array items,
// map values, nullable anyOf, single-branch allOf, two-reference anyOf).
func genC01Cycles(t *rapid.T, c *core.Ctx) (*gen.Case, *model.File) {
	f := &model.File{RelPath: "prog.json", ID: "https://example.com/prog"}
	nd := rapid.IntRange(1, 4).Draw(t, "ndefs")
	defs := make([]*model.Node, nd)
	for i := range defs {
		defs[i] = &model.Node{Kind: model.KObject, Props: []model.Prop{{Name: "value", Node: &model.Node{Kind: model.KInteger}}}, Required: []string{"value"}}
		f.Defs = append(f.Defs, model.Def{Name: fmt.Sprintf("N%d", i), Node: defs[i]})
	}
	ref := func(i int) *model.Node {
		return &model.Node{Kind: model.KRef, Ref: fmt.Sprintf("#/$defs/N%d", i), Target: defs[i]}
	}
	links := []string{"optional", "optional", "items", "map"}
	for _, sw := range []struct{ link, sw string }{{"required", "cycles.required_property"}, {"anyOfNull", "anyof.object_and_non_object_branches"},
		{"itemsAnyOf", "cycles.anyof_back_reference"}, {"anyOfTwo", "cycles.anyof_back_reference"}, {"allOfOne", "cycles.allof_back_reference"}} {
		if nd == 1 && sw.link == "anyOfTwo" {
			links = append(links, sw.link) // a definition that only refers to itself is not affected
			continue
		}
		if c.Avoid(sw.sw) {
			c.ExcludedMap()[sw.sw]++
			continue
		}
		links = append(links, sw.link)
	}
	for i, d := range defs {
		nl := rapid.IntRange(1, 3).Draw(t, "nlinks")
		for k := 0; k < nl; k++ {
			// the first link of definition i closes a ring over all definitions
			to := (i + 1) % nd
			if k > 0 {
				to = rapid.IntRange(0, nd-1).Draw(t, "to")
			}
			name := fmt.Sprintf("l%d", k)
			var n *model.Node
			link := rapid.SampledFrom(links).Draw(t, "link")
			switch link {
			case "optional":
				n = ref(to)
			case "required":
				n = ref(to)
				d.Required = append(d.Required, name)
			case "items":
				n = &model.Node{Kind: model.KArray, Items: ref(to)}
			case "map":
				n = &model.Node{Kind: model.KObject, Additional: &model.Additional{Schema: ref(to)}}
			case "anyOfNull":
				n = &model.Node{Kind: model.KAnyOf, Branches: []*model.Node{ref(to), {Kind: model.KNull}}}
			case "anyOfTwo":
				n = &model.Node{Kind: model.KAnyOf, Branches: []*model.Node{ref(to), ref(rapid.IntRange(0, nd-1).Draw(t, "to2"))}}
			case "itemsAnyOf":
				n = &model.Node{Kind: model.KArray, Items: &model.Node{Kind: model.KAnyOf, Branches: []*model.Node{ref(to), {Kind: model.KObject, Props: []model.Prop{{Name: "leaf", Node: &model.Node{Kind: model.KString}}}}}}}
			case "allOfOne":
				n = &model.Node{Kind: model.KAllOf, Branches: []*model.Node{ref(to)}}
			}
			d.Props = append(d.Props, model.Prop{Name: name, Node: n})
			c.Count("cycles.link." + link)
		}
	}
	f.Root = &model.Node{Kind: model.KObject, Props: []model.Prop{{Name: "head", Node: ref(0)}}}
	cfg := baseConfig()
	cfg.ExtraImports = rapid.Bool().Draw(t, "extraImports")
	cfg.OnlyModels = rapid.IntRange(0, 5).Draw(t, "onlyModels") == 0
	return caseOf(cfg, []string{f.RelPath}, f), f
}

// reduceC01 shrinks the failing case further at the JSON level while the same
// class of problem (normalised first message) is reported.
func reduceC01(r *core.Replay, eval func(*gen.Case) (string, []string), budget int) {
	want := surveyKey(strings.Split(r.Observed, "\n"))
	var lastProbs []string
	small, n := reduceStaticCase(r.Case, func(cs *gen.Case) bool {
		st, probs := eval(cs)
		if st != "ok" || len(probs) == 0 || surveyKey(probs) != want {
			return false
		}
		lastProbs = probs
		return true
	}, budget)
	if n > 0 && lastProbs != nil && len(small.Files[0].Text) < len(r.Case.Files[0].Text) {
		r.Note = fmt.Sprintf("reduced at the JSON level with %d evaluations from a %d-byte schema", n, len(r.Case.Files[0].Text))
		r.Case = small
		st, probs := eval(small)
		if st == "ok" && len(probs) > 0 {
			r.Observed = strings.Join(probs, "\n")
		}
	}
}

var surveySeen = map[string]bool{}

// runC01CLI drives one schema family through evalC01CLI.
func runC01CLI(c *core.Ctx, name string, n, salt int, gen func(*rapid.T, *core.Ctx) (*gen.Case, *model.File)) {
	runC01Family(c, name, n, salt, gen, evalC01CLI, "typecheck-cli", 150)
}

// runC01Family drives one schema family with the given evaluator.
func runC01Family(c *core.Ctx, name string, n, salt int, gen func(*rapid.T, *core.Ctx) (*gen.Case, *model.File),
	eval func(*gen.Case) (string, []string), check string, budget int) {
	var last *core.Replay
	res := c.Rapid(name, n, salt, func(rt *rapid.T) {
		cs, _ := gen(rt, c)
		st, probs := eval(cs)
		c.Eval(1)
		c.Count(name + ".status." + strings.SplitN(st, ":", 2)[0])
		if strings.HasPrefix(st, "infra") {
			c.Infra(st)
			return
		}
		if st != "ok" {
			return
		}
		c.Program(1)
		c.NonTrivial(cs.Files[0].Text, strings.Join(cs.Config.Args(), " "))
		c.Sample(describeCase(cs))
		if len(probs) > 0 && c.Survey() {
			key := name + ":" + surveyKey(probs)
			c.SurveyAdd(key, strings.Join(cs.Config.Args(), " ")+"\n"+strings.Join(probs, "\n"))
			if !surveySeen[key] {
				surveySeen[key] = true
				r := &core.Replay{Check: check, Case: cs, Observed: strings.Join(probs, "\n")}
				reduceC01(r, eval, budget)
				c.SurveyReplay(key, r)
			}
			return
		}
		if len(probs) > 0 {
			last = &core.Replay{Check: check, Case: cs, Expected: "the run terminates and every emitted file parses, is gofmt-stable and type-checks", Observed: strings.Join(probs, "\n")}
			rt.Fatalf("C01: %s", probs[0])
		}
	})
	c.Extra(name+"_rapid_passed", res.Passed)
	if res.Failed {
		if last != nil {
			reduceC01(last, eval, budget)
			c.Violation(check+":"+name+":"+firstLine(last.Observed), firstLine(last.Observed), last)
		} else {
			c.Infra("rapid failed without a recorded case: " + core.Clip(res.Msg, 500))
		}
	}
}

func featureSig(f *model.File, cfg gen.Config) string {
	feat := map[string]bool{}
	visit := func(n *model.Node) {
		feat[n.Kind.String()] = true
		if n.Nullable {
			feat["nullable"] = true
			feat["nullable:"+n.Kind.String()] = true
		}
		if n.Default != nil {
			feat["default:"+n.Kind.String()] = true
		}
		if n.Format != "" {
			feat["format:"+n.Format] = true
		}
		if n.Pattern != "" {
			feat["pattern"] = true
		}
		if n.MinLength != nil || n.MaxLength != nil {
			feat["strlen"] = true
		}
		if n.Minimum != nil || n.Maximum != nil || n.ExclMin != nil || n.ExclMax != nil {
			feat["bounds"] = true
		}
		if n.MultipleOf != nil {
			feat["multipleOf:"+n.Kind.String()] = true
		}
		if n.MinItems != nil || n.MaxItems != nil {
			feat["items"] = true
		}
		if n.Additional != nil {
			feat["additional"] = true
		}
	}
	model.Walk(f.Root, visit)
	for _, d := range f.Defs {
		model.Walk(d.Node, visit)
	}
	keys := make([]string, 0, len(feat))
	for k := range feat {
		keys = append(keys, k)
	}
	sortStrings(keys)
	return strings.Join(keys, ",") + "|" + strings.Join(cfg.Args(), " ")
}

func genC01Case(t *rapid.T, c *core.Ctx) (*gen.Case, *model.File) {
	prof := fullMixProfile(c)
	f := prof.File(t, "prog.json")
	dopts := &docs.Opts{}
	allow := func(n *model.Node) bool { return defaultAllowed(c, n) }
	docs.AddDefaults(t, f.Root, prof.PDefault, dopts, allow)
	for _, d := range f.Defs {
		docs.AddDefaults(t, d.Node, prof.PDefault, dopts, allow)
	}
	if rapid.IntRange(0, 7).Draw(t, "localnames") == 0 {
		addLocalIdentifierDefs(t, c, f)
	}
	if rapid.IntRange(0, 4).Draw(t, "extensions") == 0 {
		addExtensionProps(t, c, f)
	}
	if rapid.IntRange(0, 3).Draw(t, "hastitle") == 0 {
		f.Title = rapid.SampledFrom([]string{"My Title", "thing", "a b-c", "Ünï cödé", "9 lives", "日本", "x*y", "  padded  "}).Draw(t, "title")
	}
	if rapid.IntRange(0, 5).Draw(t, "yaml") == 0 {
		f.Format = model.YAML
		f.RelPath = "prog.yaml"
	}
	cfg := drawOptions(t)
	return caseOf(cfg, []string{f.RelPath}, f), f
}

// consistentExtensions: goJSONSchema extension objects whose type, imports and
// nillable flag agree (an inconsistent one is user error). Several name a
// package the generator imports on its own account, under its own alias.
var consistentExtensions = []model.Ext{
	{Type: "time.Duration", Imports: []string{"time"}},
	{Type: "big.Int", Imports: []string{"math/big"}},
	{Type: "url.URL", Imports: []string{"net/url"}},
	{Type: "yaml.Node", Imports: []string{"gopkg.in/yaml.v3"}},
	{Type: "json.RawMessage", Imports: []string{"encoding/json"}, Nillable: true},
	{Type: "fmt.Stringer", Imports: []string{"fmt"}, Nillable: true},
	{Type: "*regexp.Regexp", Imports: []string{"regexp"}, Nillable: true},
	{Type: "netip.Prefix", Imports: []string{"net/netip"}},
	{Type: "types.SerializableDate", Imports: []string{"github.com/atombender/go-jsonschema/pkg/types"}},
	{Type: "[]byte", Nillable: true},
	{Identifier: "CustomFieldName"},
}

// addExtensionProps adds 1-3 root properties (optional or required) that carry
// an extension object.
func addExtensionProps(t *rapid.T, c *core.Ctx, f *model.File) {
	if f.Root.Kind != model.KObject {
		return
	}
	n := rapid.IntRange(1, 3).Draw(t, "nexts")
	for i := 0; i < n; i++ {
		e := rapid.SampledFrom(consistentExtensions).Draw(t, "ext")
		node := &model.Node{Kind: model.KString, Ext: &e}
		if e.Type == "" {
			node.Kind = rapid.SampledFrom([]model.Kind{model.KString, model.KInteger, model.KBoolean}).Draw(t, "extkind")
		}
		name := fmt.Sprintf("zext%d", i)
		// the extension may sit on the items of an array (or of an array of arrays), on a map's
		// values or inside a nested object instead of on the property itself
		if e.Type != "" {
			switch rapid.IntRange(0, 5).Draw(t, "extplace") {
			case 0:
				node = &model.Node{Kind: model.KArray, Items: node}
			case 1:
				node = &model.Node{Kind: model.KArray, Items: &model.Node{Kind: model.KArray, Items: node}}
			case 2:
				node = &model.Node{Kind: model.KObject, Props: []model.Prop{{Name: "inner", Node: node}}}
			}
		}
		f.Root.Props = append(f.Root.Props, model.Prop{Name: name, Node: node})
		if rapid.Bool().Draw(t, "extrequired") {
			f.Root.Required = append(f.Root.Required, name)
		}
		c.Count("shape.extension." + e.Type + e.Identifier)
	}
}

// genC01Tiny: one to three properties, each with at most one constraint, no
// definitions unless referenced, rarely a required key: the schemas in which a
// single feature decides alone whether fmt, errors, regexp, math, reflect, time
// ... are imported.
func genC01Tiny(t *rapid.T, c *core.Ctx) (*gen.Case, *model.File) {
	f := &model.File{RelPath: "prog.json", ID: "https://example.com/prog"}
	f.Root = &model.Node{Kind: model.KObject}
	one := func(label string) *model.Node {
		iv := func(v int) *int { return &v }
		fv := func(v float64) *float64 { return &v }
		var n *model.Node
		switch rapid.IntRange(0, 21).Draw(t, label) {
		case 0:
			n = &model.Node{Kind: model.KInteger, MultipleOf: fv(float64(rapid.SampledFrom([]int{1, 2, 10}).Draw(t, label+"m")))}
		case 1:
			n = &model.Node{Kind: model.KNumber, MultipleOf: fv(rapid.SampledFrom([]float64{1, 0.5, 2.5}).Draw(t, label+"m"))}
		case 2:
			n = &model.Node{Kind: model.KInteger, Minimum: fv(float64(rapid.IntRange(-3, 300).Draw(t, label+"v")))}
		case 3:
			n = &model.Node{Kind: model.KNumber, Maximum: fv(float64(rapid.IntRange(-3, 300).Draw(t, label+"v")) / 4)}
		case 4:
			n = &model.Node{Kind: model.KInteger, ExclMin: &model.Excl{N: float64(rapid.IntRange(-3, 300).Draw(t, label+"v"))}}
		case 5:
			n = &model.Node{Kind: model.KNumber, ExclMax: &model.Excl{N: float64(rapid.IntRange(-3, 300).Draw(t, label+"v"))}}
		case 6:
			n = &model.Node{Kind: model.KString, MinLength: iv(rapid.IntRange(0, 3).Draw(t, label+"v"))}
		case 7:
			n = &model.Node{Kind: model.KString, MaxLength: iv(rapid.IntRange(0, 3).Draw(t, label+"v"))}
		case 8:
			n = &model.Node{Kind: model.KString, Pattern: "^[a-z]+$"}
		case 9:
			n = &model.Node{Kind: model.KString, Format: rapid.SampledFrom([]string{"date", "time", "date-time", "ipv4", "ipv6"}).Draw(t, label+"f")}
		case 10:
			n = &model.Node{Kind: model.KArray, Items: &model.Node{Kind: model.KString}, MinItems: iv(rapid.IntRange(0, 2).Draw(t, label+"v"))}
		case 11:
			n = &model.Node{Kind: model.KArray, Items: &model.Node{Kind: model.KInteger}, MaxItems: iv(rapid.IntRange(0, 2).Draw(t, label+"v"))}
		case 12:
			n = &model.Node{Kind: model.KEnum, EnumVals: []jv.V{jv.StrV("a"), jv.StrV("b")}}
		case 13:
			n = &model.Node{Kind: model.KEnum, EnumVals: []jv.V{jv.IntV(1), jv.StrV("b"), jv.NullV()}}
		case 14:
			n = &model.Node{Kind: model.KObject, Additional: &model.Additional{Schema: &model.Node{Kind: model.KInteger}}}
		case 15:
			n = &model.Node{Kind: model.KNull}
		case 16:
			n = &model.Node{Kind: model.KBoolean}
		case 17:
			n = &model.Node{Kind: model.KArray, Items: &model.Node{Kind: model.KArray, Items: &model.Node{Kind: model.KNumber}, MaxItems: iv(2)}}
		case 18:
			n = &model.Node{Kind: model.KObject, Props: []model.Prop{{Name: "in", Node: &model.Node{Kind: model.KString}}}}
		case 20, 21:
			// a (nullable) primitive or formatted string where the tool generates a declared
			// type instead of a struct field: map values and array items, directly or as definition
			var leaf *model.Node
			switch rapid.IntRange(0, 3).Draw(t, label+"leaf") {
			case 0:
				leaf = &model.Node{Kind: model.KInteger}
			case 1:
				leaf = &model.Node{Kind: model.KNumber}
			default:
				leaf = &model.Node{Kind: model.KString, Format: rapid.SampledFrom([]string{"date", "time", "date-time", "ipv4", "ipv6"}).Draw(t, label+"lf")}
			}
			if rapid.IntRange(0, 2).Draw(t, label+"leafnull") > 0 {
				leaf.Nullable = true
				leaf.NullFirst = rapid.Bool().Draw(t, label+"leafnf")
			}
			if rapid.Bool().Draw(t, label+"asmap") {
				n = &model.Node{Kind: model.KObject, Additional: &model.Additional{Schema: leaf}}
			} else {
				n = &model.Node{Kind: model.KArray, Items: leaf}
			}
		default:
			n = &model.Node{Kind: model.KAny}
		}
		if n.Kind == model.KObject && len(n.Props) > 0 && rapid.Bool().Draw(t, label+"addlany") {
			// untyped additionalProperties next to declared properties (the usual "true")
			n.Additional = &model.Additional{Schema: &model.Node{Kind: model.KAny, AnyAsTrue: rapid.Bool().Draw(t, label+"addltrue")}}
			if rapid.Bool().Draw(t, label+"addlreq") {
				n.Required = []string{n.Props[0].Name}
			}
		}
		if n.Kind != model.KEnum && n.Kind != model.KAny && n.Kind != model.KNull && rapid.IntRange(0, 3).Draw(t, label+"null") == 0 {
			n.Nullable = true
			n.NullFirst = rapid.Bool().Draw(t, label+"nf")
		}
		return n
	}
	np := rapid.IntRange(1, 3).Draw(t, "nprops")
	for i := 0; i < np; i++ {
		n := one(fmt.Sprintf("p%d", i))
		name := fmt.Sprintf("p%d", i)
		switch rapid.IntRange(0, 5).Draw(t, name+"place") {
		case 0: // through a definition
			n.Nullable = false
			if n.Kind == model.KNumber && n.MultipleOf != nil && c.Avoid("numbers.named_float_multipleof") {
				c.ExcludedMap()["numbers.named_float_multipleof"]++
				n.MultipleOf = nil
			}
			dn := fmt.Sprintf("D%d", i)
			f.Defs = append(f.Defs, model.Def{Name: dn, Node: n})
			n = &model.Node{Kind: model.KRef, Ref: "#/$defs/" + dn, Target: n}
		case 1: // as array items
			n.Nullable = false
			n = &model.Node{Kind: model.KArray, Items: n}
		case 2:
			f.Root.Required = append(f.Root.Required, name)
		}
		f.Root.Props = append(f.Root.Props, model.Prop{Name: name, Node: n})
	}
	if rapid.IntRange(0, 3).Draw(t, "rootaddlany") == 0 {
		f.Root.Additional = &model.Additional{Schema: &model.Node{Kind: model.KAny, AnyAsTrue: rapid.Bool().Draw(t, "rootaddltrue")}}
	}
	cfg := baseConfig()
	cfg.ExtraImports = rapid.Bool().Draw(t, "extraImports")
	cfg.OnlyModels = rapid.IntRange(0, 5).Draw(t, "onlyModels") == 0
	cfg.MinSizedInts = rapid.Bool().Draw(t, "minSizedInts")
	return caseOf(cfg, []string{f.RelPath}, f), f
}

// genC01Multi: 2-4 schema files with cross-file references, mapped to packages
// and output files in every combination (same package and same file, same
// package and different files, different packages), under drawn options.
func genC01Multi(t *rapid.T, c *core.Ctx) (*gen.Case, *model.File) {
	m := genMulti(t, c, multiOpts{maxFiles: 4, uniqueDefs: true, blockPkgs: true, yamlFiles: true})
	opt := drawOptions(t)
	m.cfg.ExtraImports, m.cfg.OnlyModels, m.cfg.MinSizedInts, m.cfg.Tags = opt.ExtraImports, opt.OnlyModels, opt.MinSizedInts, opt.Tags
	c.Count(fmt.Sprintf("multi.files.%d", len(m.files)))
	if m.crossRef > 0 && m.mapped > 0 {
		c.Count("multi.cross_reference_with_mapping")
	}
	return m.toCase(), m.files[0]
}

// addLocalIdentifierDefs names definitions after the identifiers the emitted
// methods declare locally (the alias type Plain and its de-duplicated forms):
// a schema type of that name must not be shadowed inside its own method.
func addLocalIdentifierDefs(t *rapid.T, c *core.Ctx, f *model.File) {
	if f.Root.Kind != model.KObject {
		return
	}
	have := map[string]bool{}
	for _, d := range f.Defs {
		have[strings.ToLower(d.Name)] = true
	}
	names := [][]string{{"Plain"}, {"plain"}, {"Plain", "Plain_0"}, {"Plain", "Plain_0", "Plain_1"}, {"PLAIN"}, {"Raw", "Plain"}}
	set := rapid.SampledFrom(names).Draw(t, "localnameset")
	for i, nm := range set {
		if have[strings.ToLower(nm)] {
			return
		}
		have[strings.ToLower(nm)] = true
		one := 1
		var def *model.Node
		switch rapid.IntRange(0, 2).Draw(t, "localnamekind") {
		case 0:
			def = &model.Node{Kind: model.KObject, Props: []model.Prop{{Name: "id", Node: &model.Node{Kind: model.KString, MinLength: &one}}}, Required: []string{"id"}}
		case 1:
			def = &model.Node{Kind: model.KObject, Props: []model.Prop{{Name: "n", Node: &model.Node{Kind: model.KInteger}}, {Name: "s", Node: &model.Node{Kind: model.KString}}}, Required: []string{"n"}}
		default:
			def = &model.Node{Kind: model.KEnum, EnumVals: []jv.V{jv.StrV("a"), jv.StrV("b")}}
		}
		f.Defs = append(f.Defs, model.Def{Name: nm, Node: def})
		f.Root.Props = append(f.Root.Props, model.Prop{Name: fmt.Sprintf("zlocal%d", i), Node: &model.Node{Kind: model.KRef, Ref: "#/$defs/" + nm, Target: def}})
	}
	c.Count("shape.local_identifier_definition_names")
}

// genC01Names: definitions whose names map to one Go identifier and that refer
// to each other along a chain, under drawn options: a colliding name is asked
// for while another declaration of the same identifier is still being generated
// (the unsuffixed one only when no open finding covers that).
func genC01Names(t *rapid.T, c *core.Ctx) (*gen.Case, *model.File) {
	sets := [][]string{
		{"UserInfo", "userInfo", "user_info"},
		{"foo_bar", "fooBar", "foo-bar", "foo bar"},
		{"x1", "x_1", "x-1"},
		{"a.b", "a/b", "a b"},
		{"zip-code", "zip_code", "ZipCode", "zipCode"},
	}
	set := rapid.SampledFrom(sets).Draw(t, "nameset")
	n := rapid.IntRange(3, len(set)).Draw(t, "nnames")
	names := rapid.Permutation(set).Draw(t, "nameorder")[:n]
	if avoidInProgressCollision == nil {
		avoidInProgressCollision = func() bool { return c.Avoid("names.collision_while_unsuffixed_in_progress") }
	}
	cfg := drawOptions(t)
	nc := chainedDefNamesCase(names, cfg)
	// variety: the link is an array of the next definition, or required
	for i := range nc.file.Defs {
		d := nc.file.Defs[i].Node
		for k := range d.Props {
			if d.Props[k].Name != "next" {
				continue
			}
			switch rapid.IntRange(0, 2).Draw(t, "linkshape") {
			case 1:
				d.Props[k].Node = &model.Node{Kind: model.KArray, Items: d.Props[k].Node}
			case 2:
				d.Required = append(d.Required, "next")
			}
		}
	}
	c.Count("shape.colliding_definition_chain")
	return caseOf(cfg, []string{nc.file.RelPath}, nc.file), nc.file
}

func TestC01(t *testing.T) {
	c := core.New(t, "C01")
	defer c.Finish()
	defer gen.CleanupCLI()
	c.Rule("schemas from the full-mix grammar (all node kinds, constraints, nullable, defaults, formats, enums, refs, allOf/anyOf, hostile descriptions, definitions named like the identifiers the emitted methods declare) x random option sets, plus two families run through the real CLI under a time limit: 'mixed' (allOf/anyOf branches of every kind - null, primitives, enums, arrays, references to any definition - and composites as array items and definitions) and 'cycles' (rings of 1-4 definitions linked through optional/required properties, array items, map values, nullable/two-reference anyOf, single-branch allOf); each accepted case: the run terminates, no gofmt warning, go/parser, gofmt fixpoint, go/types against declared imports; non-trivial = accepted case whose output has >=1 method or >=2 distinct feature kinds; distinct by sha256(files,args)")
	c.Assume("Go toolchain go/parser, go/format, go/types and gc export data as reference for 'valid Go that compiles'", "extension objects are consistent (type/imports) — inconsistent ones are user error")
	eval := func(r *core.Replay) (bool, string, error) {
		st, probs := "", []string(nil)
		if r.Check == "typecheck-cli" {
			st, probs = evalC01CLI(r.Case)
		} else {
			st, probs = evalC01(r.Case)
		}
		if strings.HasPrefix(st, "infra") {
			return false, "", fmt.Errorf("%s", st)
		}
		return len(probs) > 0, strings.Join(probs, "\n"), nil
	}
	if c.RunReplay(eval) {
		return
	}
	c.Regressions(eval)

	var last *core.Replay
	sigs := map[string]bool{}
	res := c.Rapid("fullmix", c.N(2500, 60000), 0, func(rt *rapid.T) {
		cs, f := genC01Case(rt, c)
		st, probs := evalC01(cs)
		c.Eval(1)
		c.Count("status." + strings.SplitN(st, ":", 2)[0])
		if strings.HasPrefix(st, "infra") {
			c.Infra(st)
			return
		}
		if st != "ok" {
			return
		}
		c.Program(1)
		sig := featureSig(f, cs.Config)
		sigs[sig] = true
		if strings.Count(sig, ",") >= 1 {
			c.NonTrivial(cs.Files[0].Text, strings.Join(cs.Config.Args(), " "))
		}
		c.Sample(describeCase(cs))
		if len(probs) > 0 && c.Survey() {
			c.SurveyAdd(surveyKey(probs), strings.Join(cs.Config.Args(), " ")+"\n"+strings.Join(probs, "\n"))
			c.SurveyReplay(surveyKey(probs), &core.Replay{Check: "typecheck", Case: cs, Observed: strings.Join(probs, "\n")})
			return
		}
		if len(probs) > 0 {
			last = &core.Replay{Check: "typecheck", Case: cs, Expected: "every emitted file parses, is gofmt-stable and type-checks", Observed: strings.Join(probs, "\n")}
			rt.Fatalf("C01: %s", probs[0])
		}
	})
	runC01Family(c, "tiny", c.N(1500, 40000), 12, genC01Tiny, evalC01, "typecheck", 300)
	runC01Family(c, "multi", c.N(300, 8000), 13, genC01Multi, evalC01, "typecheck", 200)
	runC01Family(c, "names", c.N(150, 3000), 14, genC01Names, evalC01, "typecheck", 200)
	runC01CLI(c, "mixed", c.N(500, 12000), 1, genC01Mixed)
	runC01CLI(c, "cycles", c.N(250, 6000), 2, genC01Cycles)
	c.Extra("feature_signatures", len(sigs))
	c.Extra("rapid_passed", res.Passed)
	if res.Failed {
		if last != nil {
			reduceC01(last, evalC01, 400)
			c.Violation("typecheck:"+firstLine(last.Observed), firstLine(last.Observed), last)
		} else {
			c.Infra("rapid failed without a recorded case: " + core.Clip(res.Msg, 500))
		}
	}
}

func firstLine(s string) string {
	if i := strings.IndexByte(s, '\n'); i >= 0 {
		return s[:i]
	}
	return s
}

func sortStrings(a []string) {
	for i := 1; i < len(a); i++ {
		for j := i; j > 0 && a[j] < a[j-1]; j-- {
			a[j], a[j-1] = a[j-1], a[j]
		}
	}
}

var numRe = regexp.MustCompile(`[0-9]+`)
var identRe = regexp.MustCompile(`\b[A-Z][A-Za-z0-9_]*\b`)

// normMsg abstracts positions and identifiers out of a diagnostic.
func normMsg(s string) string {
	s = firstLine(s)
	s = identRe.ReplaceAllString(s, "X")
	return numRe.ReplaceAllString(s, "N")
}

func surveyKey(probs []string) string {
	for _, p := range probs {
		if !strings.Contains(p, "could not gofmt") {
			return normMsg(p)
		}
	}
	return normMsg(probs[0])
}
