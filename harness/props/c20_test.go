package props

import (
	"fmt"
	"go/ast"
	"go/token"
	"os"
	"os/exec"
	"path"
	"path/filepath"
	"sort"
	"strings"
	"testing"

	"pgregory.net/rapid"

	"github.com/atombender/go-jsonschema/pkg/generator"

	"verif/harness/core"
	"verif/harness/gen"
	"verif/harness/goast"
	"verif/harness/jv"
	"verif/harness/model"
)

// schemaNames: the type names a schema file is expected to declare.
type schemaNames struct {
	file    string
	root    string
	defs    []string
	output  string
	pkg     string
	hasRoot bool
}

func rootNameOf(relPath, mapped string) string {
	if mapped != "" {
		return mapped
	}
	base := path.Base(relPath) // filea.json -> FileaJson
	parts := strings.FieldsFunc(base, func(r rune) bool { return r == '.' || r == '-' || r == '_' })
	var sb strings.Builder
	for _, p := range parts {
		sb.WriteString(strings.ToUpper(p[:1]) + p[1:])
	}
	return sb.String()
}

func namesOfMulti(m *multiCase) []schemaNames {
	var out []schemaNames
	for _, f := range m.files {
		sn := schemaNames{file: f.RelPath, root: rootNameOf(f.RelPath, m.rootOf[f.RelPath]), output: m.outOf[f.RelPath], pkg: m.pkgOf[f.RelPath], hasRoot: f.Root != nil}
		for _, d := range f.Defs {
			if d.Name == "Base" {
				continue // same name in every file by construction (shared reference text scenario)
			}
			sn.defs = append(sn.defs, d.Name)
		}
		out = append(out, sn)
	}
	return out
}

// declOwner returns the name that decides which schema a declaration belongs to.
func declOwner(d ast.Decl) []string {
	switch x := d.(type) {
	case *ast.FuncDecl:
		if x.Recv != nil && len(x.Recv.List) == 1 {
			return []string{strings.TrimPrefix(exprString(x.Recv.List[0].Type), "*")}
		}
		return []string{x.Name.Name}
	case *ast.GenDecl:
		var out []string
		for _, s := range x.Specs {
			switch sp := s.(type) {
			case *ast.TypeSpec:
				out = append(out, sp.Name.Name)
			case *ast.ValueSpec:
				for _, n := range sp.Names {
					out = append(out, strings.TrimPrefix(n.Name, "enumValues_"))
				}
			}
		}
		return out
	}
	return nil
}

// declsOf collects, per schema, the printed declarations that belong to it
// (names starting with its root type name or one of its definition names) and
// where they were found.
func declsOf(res *gen.Result, names []schemaNames) (map[string][]string, map[string]map[string]bool, []string) {
	perSchema := map[string][]string{}
	filesOf := map[string]map[string]bool{}
	var problems []string
	for _, out := range res.SortedNames() {
		p, err := parseOut(res.Sources[out])
		if err != nil {
			problems = append(problems, "output "+out+" does not parse: "+err.Error())
			continue
		}
		for _, d := range p.file.Decls {
			if gd, ok := d.(*ast.GenDecl); ok && gd.Tok == token.IMPORT {
				continue
			}
			for _, owner := range declOwner(d) {
				for _, sn := range names {
					match := sn.hasRoot && strings.HasPrefix(owner, sn.root)
					for _, dn := range sn.defs {
						if strings.HasPrefix(owner, dn) {
							match = true
						}
					}
					if match {
						perSchema[sn.file] = append(perSchema[sn.file], p.print(d))
						if filesOf[sn.file] == nil {
							filesOf[sn.file] = map[string]bool{}
						}
						filesOf[sn.file][out] = true
					}
				}
			}
		}
	}
	for k := range perSchema {
		sort.Strings(perSchema[k])
	}
	return perSchema, filesOf, problems
}

// placementCheck: (1) once-only placement in the mapped file, (2) package clause,
// (3)/(4) packages type-check together.
func placementCheck(m *multiCase, cs *gen.Case, res *gen.Result) []string {
	var probs []string
	names := namesOfMulti(m)
	_, filesOf, pp := declsOf(res, names)
	probs = append(probs, pp...)
	// declared type names per package
	typeCount := map[string]map[string]int{}
	for _, out := range res.SortedNames() {
		p, err := parseOut(res.Sources[out])
		if err != nil {
			continue
		}
		var wantPkg string
		for _, sn := range names {
			if sn.output == out {
				wantPkg = sn.pkg
			}
		}
		if wantPkg != "" && p.file.Name.Name != path.Base(wantPkg) {
			probs = append(probs, fmt.Sprintf("output %s declares package %q, mapped package is %q", out, p.file.Name.Name, wantPkg))
		}
		if typeCount[wantPkg] == nil {
			typeCount[wantPkg] = map[string]int{}
		}
		for _, d := range p.file.Decls {
			if gd, ok := d.(*ast.GenDecl); ok && gd.Tok == token.TYPE {
				for _, s := range gd.Specs {
					typeCount[wantPkg][s.(*ast.TypeSpec).Name.Name]++
				}
			}
		}
	}
	for pkg, tc := range typeCount {
		for n, k := range tc {
			if k > 1 {
				probs = append(probs, fmt.Sprintf("type %s declared %d times in package %s", n, k, pkg))
			}
			// definition names are unique across the case's files (Base apart), so a numbered twin
			// means the definition was emitted twice
			for _, sn := range names {
				for _, dn := range sn.defs {
					if strings.HasPrefix(n, dn+"_") && isDigits(n[len(dn)+1:]) {
						probs = append(probs, fmt.Sprintf("definition %s of schema %s is declared a second time as %s (package %s)", dn, sn.file, n, pkg))
					}
				}
			}
		}
	}
	for _, sn := range names {
		fs := filesOf[sn.file]
		if len(fs) == 0 {
			probs = append(probs, fmt.Sprintf("no declaration for schema %s (root type %s) was emitted", sn.file, sn.root))
			continue
		}
		for out := range fs {
			if out != sn.output {
				probs = append(probs, fmt.Sprintf("declarations of schema %s appear in %s, its id is mapped to %s", sn.file, out, sn.output))
			}
		}
		// the root type must exist exactly once, in the mapped file
		if sn.hasRoot {
			n := 0
			if p, err := parseOut(res.Sources[sn.output]); err == nil {
				for _, d := range p.file.Decls {
					if gd, ok := d.(*ast.GenDecl); ok && gd.Tok == token.TYPE {
						for _, s := range gd.Specs {
							if s.(*ast.TypeSpec).Name.Name == sn.root {
								n++
							}
						}
					}
				}
			}
			if n != 1 {
				probs = append(probs, fmt.Sprintf("root type %s of schema %s is declared %d times in %s", sn.root, sn.file, n, sn.output))
			}
		}
	}
	if len(probs) == 0 {
		ps, _ := goast.CheckPackages(packagesOf(cs, res))
		for _, p := range ps {
			if p.Kind == "type" || p.Kind == "parse" {
				probs = append(probs, "the emitted packages do not type-check together: "+p.String())
				break
			}
		}
	}
	sort.Strings(probs)
	return probs
}

// runRel runs the case relative to its directory (argument spelling == $ref
// spelling for files in one directory).
func runRel(cs *gen.Case) (gen.Result, error) {
	dir, err := os.MkdirTemp("", "verif-c20-")
	if err != nil {
		return gen.Result{}, err
	}
	defer os.RemoveAll(dir)
	if err := cs.WriteFiles(dir); err != nil {
		return gen.Result{}, err
	}
	return gen.RunIn(dir, cs, true), nil
}

// buildTree writes the outputs as a Go module rooted at example.com and builds it.
func buildTree(cs *gen.Case, res *gen.Result) (string, error) {
	dir, err := os.MkdirTemp("", "verif-c20b-")
	if err != nil {
		return "", err
	}
	defer os.RemoveAll(dir)
	mod := "module example.com\n\ngo 1.23.0\n\nrequire (\n\tgithub.com/atombender/go-jsonschema v0.0.0\n\tgithub.com/go-viper/mapstructure/v2 v2.1.0\n\tgopkg.in/yaml.v3 v3.0.1\n)\n\nreplace github.com/atombender/go-jsonschema => /repo\n"
	if err := os.WriteFile(filepath.Join(dir, "go.mod"), []byte(mod), 0o644); err != nil {
		return "", err
	}
	sum, _ := os.ReadFile(filepath.Join(goast.HarnessDir(), "go.sum"))
	_ = os.WriteFile(filepath.Join(dir, "go.sum"), sum, 0o644)
	for _, p := range packagesOf(cs, res) {
		rel := strings.TrimPrefix(p.ImportPath, "example.com/")
		for name, src := range p.Files {
			fp := filepath.Join(dir, rel, filepath.Base(name))
			_ = os.MkdirAll(filepath.Dir(fp), 0o755)
			if err := os.WriteFile(fp, []byte(src), 0o644); err != nil {
				return "", err
			}
		}
	}
	cmd := exec.Command("go", "build", "./...")
	cmd.Dir = dir
	cmd.Env = append(os.Environ(), "GOFLAGS=-mod=mod", "GOPROXY=off", "GOSUMDB=off", "GOTOOLCHAIN=local", "GOWORK=off")
	out, err := cmd.CombinedOutput()
	if err != nil {
		return core.Clip(string(out), 600), nil
	}
	return "", nil
}

func evalC20(cases []*gen.Case, m *multiCase, build bool) (bool, string, error) {
	base, err := runRel(cases[0])
	if err != nil {
		return false, "", err
	}
	if base.Panic != "" {
		return false, "", nil // C18's subject
	}
	if !base.OK() {
		return false, "", nil
	}
	var probs []string
	names := []schemaNames(nil)
	if m != nil {
		probs = placementCheck(m, cases[0], &base)
		names = namesOfMulti(m)
	}
	if len(probs) == 0 && m != nil {
		ref, _, _ := declsOf(&base, names)
		for vi, v := range cases[1:] {
			rv, err := runRel(v)
			if err != nil {
				return false, "", err
			}
			if !rv.OK() {
				probs = append(probs, fmt.Sprintf("variant %d (%s) fails although the base run succeeds: %s", vi, strings.Join(v.Inputs, " "), core.Clip(rv.Err+rv.Panic, 200)))
				break
			}
			got, _, _ := declsOf(&rv, names)
			for _, sn := range names {
				a, b := ref[sn.file], got[sn.file]
				if strings.Join(a, "\x00") != strings.Join(b, "\x00") {
					onlyA, onlyB := multisetDiff(a, b)
					x, y := "", ""
					if len(onlyA) > 0 {
						x = onlyA[0]
					}
					if len(onlyB) > 0 {
						y = onlyB[0]
					}
					probs = append(probs, fmt.Sprintf("the code generated for schema %s changes with the argument list (%s vs %s): %s", sn.file, strings.Join(cases[0].Inputs, " "), strings.Join(v.Inputs, " "), firstDiffLine(x, y)))
					break
				}
			}
			if len(probs) > 0 {
				break
			}
		}
	}
	if len(probs) == 0 && build {
		msg, err := buildTree(cases[0], &base)
		if err != nil {
			return false, "", err
		}
		if msg != "" {
			probs = append(probs, "go build of the emitted tree fails: "+msg)
		}
	}
	return len(probs) > 0, strings.Join(probs, "\n"), nil
}

// directedLayoutCase: hand-shaped directory layouts that the random generator
// does not reach while all files sit in one directory.
//
//	0: t/common.json and t/sub/common.json (same base name, both define Base) and
//	   t/sub/api.json referring to "../common.json#/$defs/Base" and to
//	   "common.json#/$defs/Base" (or "./common.json..."): each reference binds to
//	   its own file, both files' code is emitted where their ids are mapped;
//	1: common.json referenced as "common.json#/$defs/Limits" from root.json and as
//	   "../common.json#/$defs/Limits" from svc/api.json (Limits has integer
//	   properties with integral defaults): one declaration of Limits.
func directedLayoutCase(t *rapid.T, c *core.Ctx, which int) *multiCase {
	m := &multiCase{pkgOf: map[string]string{}, outOf: map[string]string{}, rootOf: map[string]string{}}
	m.cfg = gen.Config{DefaultPackage: "example.com/gen/defpkg", DefaultOutput: "out/defpkg/default.go"}
	obj := func(props ...model.Prop) *model.Node { return &model.Node{Kind: model.KObject, Props: props} }
	str := func() *model.Node { return &model.Node{Kind: model.KString} }
	mapf := func(f *model.File, pkg, out, root string) {
		m.cfg.Mappings = append(m.cfg.Mappings, gen.Mapping{ID: f.ID, Package: pkg, Output: out, RootType: root})
		m.pkgOf[f.RelPath], m.outOf[f.RelPath], m.rootOf[f.RelPath] = pkg, out, root
		m.mapped++
	}
	switch which {
	case 0:
		topBase := obj(model.Prop{Name: "top", Node: str()})
		topBase.Required = []string{"top"}
		subBase := obj(model.Prop{Name: "sub", Node: &model.Node{Kind: model.KInteger}})
		subBase.Required = []string{"sub"}
		top := &model.File{RelPath: "t/common.json", ID: "https://example.com/top-common", Root: obj(model.Prop{Name: "topOnly", Node: str()}),
			Defs: []model.Def{{Name: "Base", Node: topBase}, {Name: "TopDef", Node: obj(model.Prop{Name: "x", Node: str()})}}}
		sub := &model.File{RelPath: "t/sub/common.json", ID: "https://example.com/sub-common", Root: obj(model.Prop{Name: "subOnly", Node: str()}),
			Defs: []model.Def{{Name: "Base", Node: subBase}, {Name: "SubDef", Node: obj(model.Prop{Name: "y", Node: str()})}}}
		local := rapid.SampledFrom([]string{"common.json", "./common.json"}).Draw(t, "localspelling")
		props := []model.Prop{
			{Name: "owner", Node: &model.Node{Kind: model.KRef, Ref: "../common.json#/$defs/Base", Target: topBase}},
			{Name: "local", Node: &model.Node{Kind: model.KRef, Ref: local + "#/$defs/Base", Target: subBase}},
		}
		if rapid.Bool().Draw(t, "localfirst") {
			props[0].Name, props[1].Name = "zowner", "alocal"
		}
		api := &model.File{RelPath: "t/sub/api.json", ID: "https://example.com/api", Root: obj(props...)}
		m.files = []*model.File{api, top, sub}
		m.inputs = []string{api.RelPath}
		mapf(api, "example.com/gen/papi", "out/papi/api.go", "ApiRoot")
		mapf(top, "example.com/gen/ptop", "out/ptop/common.go", "TopCommon")
		mapf(sub, "example.com/gen/psub", "out/psub/common.go", "SubCommon")
		m.crossRef = 2
		c.Count("shape.directed.same_basename_parent_and_sibling")
	case 2:
		// two ids mapped to DIFFERENT packages whose import paths end in the same element, the first
		// referring to a definition and to the root of the second
		partDef := obj(model.Prop{Name: "sku", Node: str()})
		partDef.Required = []string{"sku"}
		ship := &model.File{RelPath: "shipping.json", ID: "https://example.com/shipping", Root: obj(model.Prop{Name: "carrier", Node: str()}),
			Defs: []model.Def{{Name: "ShipPart", Node: partDef}}}
		bill := &model.File{RelPath: "billing.json", ID: "https://example.com/billing", Root: obj(
			model.Prop{Name: "part", Node: &model.Node{Kind: model.KRef, Ref: "shipping.json#/$defs/ShipPart", Target: partDef}},
			model.Prop{Name: "shipment", Node: &model.Node{Kind: model.KRef, Ref: "shipping.json", Target: ship.Root}},
			model.Prop{Name: "parts", Node: &model.Node{Kind: model.KArray, Items: &model.Node{Kind: model.KRef, Ref: "shipping.json#/$defs/ShipPart", Target: partDef}}})}
		m.files = []*model.File{bill, ship}
		m.inputs = []string{bill.RelPath}
		if rapid.Bool().Draw(t, "bothargs") {
			m.inputs = []string{bill.RelPath, ship.RelPath}
		}
		last := rapid.SampledFrom([]string{"model", "types", "v1"}).Draw(t, "lastelem")
		mapf(bill, "example.com/billing/"+last, "out/billing/"+last+"/gen.go", "")
		mapf(ship, "example.com/shipping/"+last, "out/shipping/"+last+"/gen.go", "")
		m.crossRef = 3
		c.Count("shape.directed.two_packages_same_last_element")
	default:
		ten, zero := jv.IntV(int64(rapid.IntRange(1, 500).Draw(t, "defmax"))), jv.IntV(0)
		limits := obj(model.Prop{Name: "max", Node: &model.Node{Kind: model.KInteger, Default: &ten}}, model.Prop{Name: "min", Node: &model.Node{Kind: model.KInteger, Default: &zero}}, model.Prop{Name: "label", Node: str()})
		common := &model.File{RelPath: "common.json", ID: "https://example.com/common", Root: obj(model.Prop{Name: "c", Node: str()}), Defs: []model.Def{{Name: "Limits", Node: limits}}}
		root := &model.File{RelPath: "root.json", ID: "https://example.com/rootdoc", Root: obj(model.Prop{Name: "limits", Node: &model.Node{Kind: model.KRef, Ref: "common.json#/$defs/Limits", Target: limits}})}
		api := &model.File{RelPath: "svc/api.json", ID: "https://example.com/svcapi", Root: obj(model.Prop{Name: "quota", Node: &model.Node{Kind: model.KRef, Ref: "../common.json#/$defs/Limits", Target: limits}})}
		m.files = []*model.File{root, api, common}
		m.inputs = []string{root.RelPath, api.RelPath}
		if rapid.Bool().Draw(t, "apifirst") {
			m.inputs = []string{api.RelPath, root.RelPath}
		}
		mapf(root, "example.com/gen/proot", "out/proot/root.go", "RootDoc")
		mapf(api, "example.com/gen/psvc", "out/psvc/api.go", "SvcApi")
		mapf(common, "example.com/gen/pcommon", "out/pcommon/common.go", "CommonDoc")
		m.crossRef = 2
		c.Count("shape.directed.one_file_two_spellings")
	}
	return m
}

func TestC20(t *testing.T) {
	c := core.New(t, "C20")
	defer c.Finish()
	c.Rule("1-4 schema files with distinct ids drawn from a prefix-closed pool, a DAG of cross-file references (to roots and to definitions), mappings (package path from a pool with equal last elements, output file, optional root type) for a random subset of ids and defaults for the rest; oracle on the parsed outputs: every schema's root type and definitions are declared exactly once and only in the file mapped to its id, the package clause is the last element of the mapped package path, no type name is declared twice in a package, all emitted packages type-check together (cross-package fields qualified and imported) and a sample is built with go build; relations: for every permutation of the arguments (<=6) and for the argument list extended by an unrelated file, the printed declarations belonging to each schema are identical; stateful: DoFile steps in drawn order on one Generator, after each step the declarations of already processed schemas are unchanged; non-trivial = >=2 files with >=1 cross-file reference and >=1 mapping; distinct by sha256(files,args)")
	c.Assume("reference cycles across packages cannot build in Go and are not generated (packages are assigned in contiguous blocks of the reference order)", "ids with a package mapping also get an output mapping")
	eval := func(r *core.Replay) (bool, string, error) {
		return evalC20Replay(r)
	}
	if c.RunReplay(eval) {
		return
	}
	c.Regressions(eval)
	var last *core.Replay
	iter := 0
	buildEvery := 25
	if c.Thorough() {
		buildEvery = 12
	}
	sameDir := c.Avoid("paths.argument_also_ref_target")
	res := c.Rapid("placement", c.N(400, 8000), 0, func(rt *rapid.T) {
		shared := rapid.IntRange(0, 2).Draw(rt, "sharedreftext") == 0
		// a fifth of the cases lets two files state the same id (they then share mapping, package and file)
		dup := rapid.IntRange(0, 4).Draw(rt, "dupids") == 0
		if dup {
			shared = false
		}
		m := genMulti(rt, c, multiOpts{maxFiles: 4, uniqueDefs: true, blockPkgs: true, sameDir: sameDir, yamlFiles: false, sharedRefText: shared, allowDupID: dup})
		if shared {
			c.Count("shape.shared_ref_text")
		}
		if d := rapid.IntRange(0, 15).Draw(rt, "directed"); d < 3 {
			m = directedLayoutCase(rt, c, d)
		}
		if sameDir {
			c.ExcludedMap()["paths.argument_also_ref_target"]++
		}
		opt := drawOptions(rt)
		m.cfg.ExtraImports, m.cfg.MinSizedInts, m.cfg.Tags = opt.ExtraImports, opt.MinSizedInts, opt.Tags
		base := m.toCase()
		cases := []*gen.Case{base}
		// argument permutations
		if len(m.inputs) > 1 {
			for k := 0; k < 5; k++ {
				perm := rapid.Permutation(m.inputs).Draw(rt, "argorder")
				cp := *base
				cp.Inputs = perm
				cases = append(cases, &cp)
			}
		}
		// plus an unrelated file
		extra := gen.FileText{RelPath: "unrelated.json", Text: `{"$id":"https://example.com/unrelated","type":"object","properties":{"u":{"type":"integer","minimum":3},"e":{"type":"string","enum":["x","y"]}},"$defs":{"UnrelatedDef":{"type":"object","properties":{"q":{"type":"string"}}},"Base":{"type":"object","properties":{"unrelatedOnly":{"type":"string"}},"required":["unrelatedOnly"]}},"allOf":[{"$ref":"#/$defs/Base"},{"type":"object","properties":{"w":{"type":"boolean"}}}]}`}
		cp := *base
		// the unrelated schema lives in a package and file of its own (no name can collide with it)
		cp.Config.Mappings = append(append([]gen.Mapping{}, base.Config.Mappings...), gen.Mapping{ID: "https://example.com/unrelated", Package: "example.com/unrelatedpkg", Output: "out/unrelatedpkg/unrelated.go"})
		cp.Files = append(append([]gen.FileText{}, base.Files...), extra)
		pos := rapid.IntRange(0, len(base.Inputs)).Draw(rt, "extrapos")
		cp.Inputs = append(append(append([]string{}, base.Inputs[:pos]...), "unrelated.json"), base.Inputs[pos:]...)
		cases = append(cases, &cp)
		iter++
		build := iter%buildEvery == 0
		failed, msg, err := evalC20(cases, m, build)
		if err != nil {
			c.Infra(err.Error())
			return
		}
		c.Eval(len(cases))
		c.Program(1)
		c.Count(fmt.Sprintf("files.%d", len(m.files)))
		if build {
			c.Count("go_build_runs")
		}
		if len(m.files) >= 2 && m.crossRef >= 1 && m.mapped >= 1 {
			c.NonTrivial(base.Files[0].Text, strings.Join(base.Config.Args(), " "), strings.Join(base.Inputs, " "))
			c.Count("nontrivial")
		}
		c.Sample(describeCase(base))
		if failed {
			last = &core.Replay{Check: "placement", Cases: cases, Expected: "once-only placement in the mapped file/package, packages build together, per-schema code independent of order and company", Observed: msg, Direct: multiMeta(m)}
			if build {
				last.Check = "placement-build"
			}
			rt.Fatalf("%s", msg)
		}
	})
	if res.Failed {
		if last != nil {
			c.Violation("placement:"+normMsg(firstLine(last.Observed)), last.Observed, last)
		} else {
			c.Infra("rapid failed without a case: " + core.Clip(res.Msg, 400))
		}
	}
	runStateful(c, sameDir)
	runMarkers(c)
}

// multiMeta serialises what the placement oracle needs for a replay.
func multiMeta(m *multiCase) []byte {
	type meta struct {
		Names []struct {
			File, Root, Output, Pkg string
			Defs                    []string
			HasRoot                 bool
		}
	}
	var mm meta
	for _, sn := range namesOfMulti(m) {
		mm.Names = append(mm.Names, struct {
			File, Root, Output, Pkg string
			Defs                    []string
			HasRoot                 bool
		}{sn.file, sn.root, sn.output, sn.pkg, sn.defs, sn.hasRoot})
	}
	b, _ := jsonMarshal(mm)
	return b
}

func evalC20Replay(r *core.Replay) (bool, string, error) {
	if r.Check == "markers" {
		failed, msg, _, err := evalMarkers(r.Case)
		return failed, msg, err
	}
	// rebuild a minimal multiCase from the stored metadata
	var mm struct {
		Names []struct {
			File, Root, Output, Pkg string
			Defs                    []string
			HasRoot                 bool
		}
	}
	if len(r.Direct) > 0 {
		if err := jsonUnmarshal(r.Direct, &mm); err != nil {
			return false, "", err
		}
	}
	m := &multiCase{pkgOf: map[string]string{}, outOf: map[string]string{}, rootOf: map[string]string{}}
	for _, n := range mm.Names {
		f := &model.File{RelPath: n.File}
		if n.HasRoot {
			f.Root = &model.Node{Kind: model.KObject}
		}
		for _, d := range n.Defs {
			f.Defs = append(f.Defs, model.Def{Name: d})
		}
		m.files = append(m.files, f)
		m.pkgOf[n.File], m.outOf[n.File], m.rootOf[n.File] = n.Pkg, n.Output, n.Root
	}
	if r.Check == "stateful" {
		return evalStateful(r.Cases[0], m)
	}
	return evalC20(r.Cases, m, r.Check == "placement-build")
}

// ---- stateful: DoFile steps on one Generator

func evalStateful(cs *gen.Case, m *multiCase) (failed bool, msg string, err error) {
	dir, derr := os.MkdirTemp("", "verif-c20s-")
	if derr != nil {
		return false, "", derr
	}
	defer os.RemoveAll(dir)
	if err := cs.WriteFiles(dir); err != nil {
		return false, "", err
	}
	cwd, _ := os.Getwd()
	if err := os.Chdir(dir); err != nil {
		return false, "", err
	}
	defer func() { _ = os.Chdir(cwd) }()
	defer func() {
		if r := recover(); r != nil {
			failed, msg, err = false, "", nil // panics are C18's subject
		}
	}()
	g, gerr := generator.New(cs.Config.ToGenerator(func(string) {}))
	if gerr != nil {
		return false, "", nil
	}
	names := namesOfMulti(m)
	byFile := map[string]schemaNames{}
	for _, sn := range names {
		byFile[sn.file] = sn
	}
	prev := map[string][]string{}
	var done []string
	for step, in := range cs.Inputs {
		if err := g.DoFile(in); err != nil {
			return false, "", nil
		}
		srcs := g.Sources()
		res := gen.Result{Sources: map[string]string{}}
		for k, v := range srcs {
			res.Sources[k] = string(v)
		}
		cur, _, _ := declsOf(&res, names)
		for _, d := range done {
			if strings.Join(prev[d], "\x00") != strings.Join(cur[d], "\x00") {
				onlyA, onlyB := multisetDiff(prev[d], cur[d])
				x, y := "", ""
				if len(onlyA) > 0 {
					x = onlyA[0]
				}
				if len(onlyB) > 0 {
					y = onlyB[0]
				}
				return true, fmt.Sprintf("step %d (DoFile %s) changed the code already generated for %s: %s", step, in, d, firstDiffLine(x, y)), nil
			}
		}
		if _, ok := byFile[in]; ok {
			done = append(done, in)
		}
		for k, v := range cur {
			prev[k] = v
		}
	}
	return false, "", nil
}

func runStateful(c *core.Ctx, sameDir bool) {
	var last *core.Replay
	res := c.Rapid("stateful", c.N(150, 3000), 9, func(rt *rapid.T) {
		m := genMulti(rt, c, multiOpts{maxFiles: 4, uniqueDefs: true, blockPkgs: true, sameDir: sameDir})
		base := m.toCase()
		// the history: every file once, in drawn order, some files twice
		order := rapid.Permutation(m.inputs).Draw(rt, "order")
		if len(order) > 1 && rapid.Bool().Draw(rt, "repeat") {
			order = append(order, order[rapid.IntRange(0, len(order)-1).Draw(rt, "again")])
		}
		base.Inputs = order
		failed, msg, err := evalStateful(base, m)
		if err != nil {
			c.Infra(err.Error())
			return
		}
		c.Eval(len(order))
		c.Count("stateful.histories")
		if len(order) >= 2 {
			c.NonTrivial("stateful", base.Files[0].Text, strings.Join(order, " "))
		}
		if failed {
			last = &core.Replay{Check: "stateful", Cases: []*gen.Case{base}, Direct: multiMeta(m), Expected: "outputs for already processed schemas are unchanged by later DoFile steps", Observed: msg}
			rt.Fatalf("%s", msg)
		}
	})
	if res.Failed {
		if last != nil {
			c.Violation("stateful", last.Observed, last)
		} else {
			c.Infra("rapid (stateful) failed without a case: " + core.Clip(res.Msg, 400))
		}
	}
}

func isDigits(s string) bool {
	if s == "" {
		return false
	}
	for _, r := range s {
		if r < '0' || r > '9' {
			return false
		}
	}
	return true
}
