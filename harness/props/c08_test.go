package props

import (
	"fmt"
	"go/constant"
	"go/types"
	"strings"
	"testing"

	"pgregory.net/rapid"

	"verif/harness/core"
	"verif/harness/docs"
	"verif/harness/gen"
	"verif/harness/goast"
	"verif/harness/jv"
	"verif/harness/model"
	"verif/harness/sgen"
)

// enumConstCheck: for every string enum of the file, the emitted package must
// expose, per listed string, a constant of a named string type whose value is
// that string (all constants of one enum sharing one type).
func enumConstCheck(cs *gen.Case, f *model.File) (problems []string, checked int, status string) {
	res := gen.Run(cs)
	if !res.OK() {
		return nil, 0, "rejected"
	}
	ps, ck := goast.CheckPackages(packagesOf(cs, &res))
	for _, p := range ps {
		if p.Kind == "type" || p.Kind == "parse" {
			return nil, 0, "uncompilable"
		}
	}
	var pkg *types.Package
	for _, p := range ck.Pkgs {
		pkg = p
	}
	if pkg == nil {
		return nil, 0, "uncompilable"
	}
	// constants grouped by their named type
	byType := map[string]map[string]bool{}
	scope := pkg.Scope()
	for _, name := range scope.Names() {
		cst, ok := scope.Lookup(name).(*types.Const)
		if !ok || cst.Val().Kind() != constant.String {
			continue
		}
		nt, ok := cst.Type().(*types.Named)
		if !ok {
			continue
		}
		tn := nt.Obj().Name()
		if byType[tn] == nil {
			byType[tn] = map[string]bool{}
		}
		byType[tn][constant.StringVal(cst.Val())] = true
	}
	visit := func(n *model.Node) {
		if n.Kind != model.KEnum || len(n.EnumVals) == 0 {
			return
		}
		var strs []string
		for _, v := range n.EnumVals {
			if v.K != jv.Str {
				return // not a pure string enum
			}
			strs = append(strs, v.S)
		}
		if n.EnumType != "" && n.EnumType != "string" {
			return
		}
		checked++
		found := false
		for _, set := range byType {
			all := true
			for _, s := range strs {
				if !set[s] {
					all = false
					break
				}
			}
			if all {
				found = true
				break
			}
		}
		if !found {
			problems = append(problems, fmt.Sprintf("no enum type exposes one constant per listed string %q", strs))
		}
	}
	model.Walk(f.Root, visit)
	for _, d := range f.Defs {
		model.Walk(d.Node, visit)
	}
	return problems, checked, "ok"
}

// addMultiTypeEnums: enums that state a list of two or more types, every value
// being of one of them ("integer" with and without "number" in the list).
func addMultiTypeEnums(t *rapid.T, c *core.Ctx, f *model.File) {
	shapes := []struct {
		types []string
		vals  []jv.V
	}{
		{[]string{"integer", "string"}, []jv.V{jv.IntV(0), jv.IntV(3), jv.IntV(10), jv.StrV("unlimited")}},
		{[]string{"string", "integer"}, []jv.V{jv.StrV("auto"), jv.IntV(1), jv.IntV(-2)}},
		{[]string{"number", "string"}, []jv.V{jv.NumLit("1.5"), jv.IntV(2), jv.StrV("max")}},
		{[]string{"integer", "boolean"}, []jv.V{jv.IntV(7), jv.BoolV(true), jv.BoolV(false)}},
		{[]string{"string", "null"}, []jv.V{jv.StrV("a"), jv.StrV("b"), jv.NullV()}},
		{[]string{"integer", "string", "boolean"}, []jv.V{jv.IntV(5), jv.StrV("five"), jv.BoolV(true)}},
		// a member that is the string spelling of another member (untyped list)
		{nil, []jv.V{jv.IntV(1), jv.StrV("1")}},
		{nil, []jv.V{jv.StrV("true"), jv.BoolV(true), jv.StrV("x")}},
		{nil, []jv.V{jv.StrV("2.5"), jv.NumLit("2.5"), jv.StrV("x")}},
		{[]string{"string", "integer"}, []jv.V{jv.StrV("7"), jv.IntV(7), jv.IntV(8)}},
	}
	n := rapid.IntRange(1, 2).Draw(t, "nmultitype")
	for i := 0; i < n; i++ {
		sh := rapid.SampledFrom(shapes).Draw(t, "multitypeshape")
		e := &model.Node{Kind: model.KEnum, EnumTypes: sh.types, EnumVals: append([]jv.V{}, sh.vals...)}
		name := fmt.Sprintf("zmulti%d", i)
		switch rapid.IntRange(0, 2).Draw(t, "multitypeplace") {
		case 0:
			f.Root.Props = append(f.Root.Props, model.Prop{Name: name, Node: e})
		case 1:
			f.Root.Props = append(f.Root.Props, model.Prop{Name: name, Node: &model.Node{Kind: model.KArray, Items: e}})
		default:
			dn := fmt.Sprintf("ZMulti%d", i)
			f.Defs = append(f.Defs, model.Def{Name: dn, Node: e})
			f.Root.Props = append(f.Root.Props, model.Prop{Name: name, Node: &model.Node{Kind: model.KRef, Ref: "#/$defs/" + dn, Target: e}})
		}
		f.Root.Required = append(f.Root.Required, name)
		c.Count("shape.multi_type_enum." + strings.Join(sh.types, "+"))
	}
}

// addNarrowedRefEnums: an enum keyword next to a $ref to a wider enum (the
// tool lets the enum decide), written directly under a property, as the items
// of an inline array and as the items of a named array definition.
func addNarrowedRefEnums(t *rapid.T, c *core.Ctx, f *model.File) {
	wide := &model.Node{Kind: model.KEnum, EnumType: "string", EnumVals: []jv.V{jv.StrV("red"), jv.StrV("green"), jv.StrV("blue"), jv.StrV("amber")}}
	f.Defs = append(f.Defs, model.Def{Name: "ZColor", Node: wide})
	narrow := func() *model.Node {
		return &model.Node{Kind: model.KEnum, NoType: true, EnumVals: []jv.V{jv.StrV("red"), jv.StrV("amber")}, Noise: []jv.KV{{K: "$ref", V: jv.StrV("#/$defs/ZColor")}}}
	}
	place := rapid.IntRange(0, 2).Draw(t, "narrowplace")
	switch place {
	case 0:
		f.Root.Props = append(f.Root.Props, model.Prop{Name: "znarrow", Node: narrow()})
	case 1:
		f.Root.Props = append(f.Root.Props, model.Prop{Name: "znarrow", Node: &model.Node{Kind: model.KArray, Items: narrow()}})
	default:
		if c.Avoid("refs.array_definition") {
			// the narrowed element type validates itself even though the named array does not
			c.Count("shape.narrowed_ref_enum.named_array_despite_open_finding")
		}
		list := &model.Node{Kind: model.KArray, Items: narrow()}
		f.Defs = append(f.Defs, model.Def{Name: "ZNarrowList", Node: list})
		f.Root.Props = append(f.Root.Props, model.Prop{Name: "znarrow", Node: &model.Node{Kind: model.KRef, Ref: "#/$defs/ZNarrowList", Target: list}})
	}
	f.Root.Props = append(f.Root.Props, model.Prop{Name: "zwide", Node: &model.Node{Kind: model.KRef, Ref: "#/$defs/ZColor", Target: wide}})
	f.Root.Required = append(f.Root.Required, "znarrow")
	c.Count(fmt.Sprintf("shape.narrowed_ref_enum.%d", place))
}

func TestC08(t *testing.T) {
	c := core.New(t, "C08")
	defer c.Finish()
	c.Rule("programs whose properties are enums (1-6 values over strings incl. empty/Unicode/near-duplicates, integers incl. negative and >2^31, numbers, booleans, null, mixtures; typed and untyped; inline required/optional, via $ref, as array items); documents: every member (accept, decoded value and marshal round trip must equal the member) and non-members of every JSON type (neighbouring numbers, case/spacing variants, \"1\" vs 1, true vs \"true\", null when not listed); static part: go/types finds one typed constant per listed string; non-trivial = mixed/typed-numeric enum or non-member of the member's JSON type; distinct by sha256(schema,args,document)")
	c.Assume("R1", "R2", "R4", "reference oracle section 1.4")
	runEval := runReplayEval(stdJudge)
	eval := func(r *core.Replay) (bool, string, error) {
		if r.Check == "constants" {
			// static replay: needs the model only for the listed strings; re-derive from the schema text
			return evalEnumConstReplay(r)
		}
		return runEval(r)
	}
	if c.RunReplay(eval) {
		return
	}
	c.Regressions(eval)
	o := docOpts(c)
	prof := &sgen.Profile{MaxDepth: 2, MinProps: 2, MaxProps: 6, MinDefs: 1, MaxDefs: 3, ArrayDepth: 1,
		WEnum: 10, WRef: 5, WArray: 3, WString: 1, WObject: 1,
		DefWeights: map[string]int{"enum": 6, "object": 1},
		MixedEnums: true, PRequired: 0.5, PConstraint: 0.3,
		Avoid: c.Avoid, Excluded: c.ExcludedMap(), Sat: docs.Satisfiable}
	plan := &docPlan{NValid: 6, Kinds: map[string]bool{"enum": true}, Remarshal: true,
		NTMutant: func(m *docs.Mutant) bool {
			n := m.Pos.Node
			return wrappedEnum(n) || n.EnumType == "integer" || n.EnumType == "number" || m.Pos.ViaRef || m.Pos.InArray > 0
		},
		NTValid: func(v jv.V) bool { return true },
	}
	var staticFails int
	runProperty(c, "run", c.N(240, 6000), 0, func(rt *rapid.T) *RunCase {
		f := prof.File(rt, "prog.json")
		if rapid.IntRange(0, 3).Draw(rt, "collidingdefs") == 0 {
			addCollidingDefs(rt, c, f, "enum")
		}
		if rapid.IntRange(0, 2).Draw(rt, "multitypeenum") == 0 {
			addMultiTypeEnums(rt, c, f)
		}
		if rapid.IntRange(0, 2).Draw(rt, "narrowedref") == 0 {
			addNarrowedRefEnums(rt, c, f)
		}
		// every enum is also probed with the values the other enums of the schema list
		oc := *o
		collect := func(x *model.Node) {
			if x.Kind == model.KEnum {
				for _, v := range x.EnumVals {
					if v.K != jv.Null && len(oc.OtherEnumValues) < 40 {
						oc.OtherEnumValues = append(oc.OtherEnumValues, v)
					}
				}
			}
		}
		model.Walk(f.Root, collect)
		for _, d := range f.Defs {
			model.Walk(d.Node, collect)
		}
		o := &oc
		cs := caseOf(baseConfig(), []string{f.RelPath}, f)
		countShapes(c, f, cs.Config)
		probs, n, st := enumConstCheck(cs, f)
		c.Count("static." + st)
		c.CountN("static.string_enums_checked", n)
		c.Eval(n)
		if len(probs) > 0 && staticFails < 1 {
			staticFails++
			if c.Survey() {
				c.SurveyAdd("constants", probs[0])
			} else {
				c.Violation("constants", probs[0], &core.Replay{Check: "constants", Case: cs, Expected: "one typed constant per listed enum string", Observed: strings.Join(probs, "; ")})
			}
		}
		jobs := buildJobs(rt, c, f.Root, progRoot, plan, o, cs)
		c.Sample(sampleOf(cs, jobs))
		return &RunCase{Case: cs, Jobs: jobs, Model: modelIfSingle(cs, f)}
	}, stdJudge)
}

// evalEnumConstReplay re-derives the string enums from the schema text.
func evalEnumConstReplay(r *core.Replay) (bool, string, error) {
	v, err := jv.Parse([]byte(r.Case.Files[0].Text))
	if err != nil {
		return false, "", err
	}
	f := &model.File{RelPath: r.Case.Files[0].RelPath, Root: &model.Node{Kind: model.KObject}}
	var collect func(x jv.V)
	collect = func(x jv.V) {
		switch x.K {
		case jv.Obj:
			if e, ok := x.Get("enum"); ok && e.K == jv.Arr {
				n := &model.Node{Kind: model.KEnum, EnumVals: e.A}
				if t, ok := x.Get("type"); ok && t.K == jv.Str {
					n.EnumType = t.S
				}
				f.Root.Props = append(f.Root.Props, model.Prop{Name: fmt.Sprintf("e%d", len(f.Root.Props)), Node: n})
			}
			for _, kv := range x.O {
				collect(kv.V)
			}
		case jv.Arr:
			for _, e := range x.A {
				collect(e)
			}
		}
	}
	collect(v)
	probs, _, st := enumConstCheck(r.Case, f)
	if st != "ok" {
		return false, "case no longer generates: " + st, nil
	}
	return len(probs) > 0, strings.Join(probs, "; "), nil
}
