package props

import (
	"fmt"
	"go/ast"
	"reflect"
	"regexp"
	"sort"
	"strconv"
	"strings"

	"pgregory.net/rapid"

	"verif/harness/core"
	"verif/harness/gen"
	"verif/harness/jv"
)

// Marker scenario of C20: "each schema's code lands once" judged without
// knowing any emitted type name. Every object schema that must be emitted (the
// root of every argument file, every definition) carries one property with a
// case-unique name mk<N>; the oracle demands that exactly one struct in the
// outputs has a field bound to that key, and that it sits in the output file
// mapped to the id of the schema file that states it. This reaches the cases in
// which the tool's *names* collide (two argument files with one base name in
// different directories, names that identifierize alike, equal titles under
// --struct-name-from-title, a definition named like the root type) and a schema
// silently goes missing or is emitted twice.

var markerKeyRe = regexp.MustCompile(`^mk[0-9]+$`)

type markerWant struct {
	key    string
	file   string
	output string
	where  string // "root" or "definition <name>"
}

// markersOfCase derives the expectation from the case alone (replays need nothing else).
func markersOfCase(cs *gen.Case) ([]markerWant, error) {
	var out []markerWant
	isInput := map[string]bool{}
	for _, in := range cs.Inputs {
		isInput[in] = true
	}
	for _, f := range cs.Files {
		if !isInput[f.RelPath] {
			continue
		}
		v, err := jv.Parse([]byte(f.Text))
		if err != nil {
			return nil, err
		}
		id := ""
		if x, ok := v.Get("$id"); ok {
			id = x.S
		}
		output := cs.Config.DefaultOutput
		for _, m := range cs.Config.Mappings {
			if m.ID == id && m.Output != "" {
				output = m.Output
			}
		}
		collect := func(obj jv.V, where string) {
			ps, ok := obj.Get("properties")
			if !ok {
				return
			}
			for _, kv := range ps.O {
				if markerKeyRe.MatchString(kv.K) {
					out = append(out, markerWant{kv.K, f.RelPath, output, where})
				}
			}
		}
		collect(v, "root")
		for _, dk := range []string{"$defs", "definitions"} {
			if ds, ok := v.Get(dk); ok {
				for _, kv := range ds.O {
					collect(kv.V, "definition "+kv.K)
				}
			}
		}
	}
	return out, nil
}

// structsWithKey: output -> struct type names having a field whose json tag names key.
func structsWithKey(res *gen.Result) map[string]map[string][]string {
	found := map[string]map[string][]string{} // key -> output -> type names
	for _, out := range res.SortedNames() {
		p, err := parseOut(res.Sources[out])
		if err != nil {
			continue
		}
		ast.Inspect(p.file, func(n ast.Node) bool {
			ts, ok := n.(*ast.TypeSpec)
			if !ok {
				return true
			}
			st, ok := ts.Type.(*ast.StructType)
			if !ok {
				return true
			}
			for _, fl := range st.Fields.List {
				if fl.Tag == nil {
					continue
				}
				raw, err := strconv.Unquote(fl.Tag.Value)
				if err != nil {
					continue
				}
				name := strings.Split(reflect.StructTag(raw).Get("json"), ",")[0]
				if markerKeyRe.MatchString(name) {
					if found[name] == nil {
						found[name] = map[string][]string{}
					}
					found[name][out] = append(found[name][out], ts.Name.Name)
				}
			}
			return true
		})
	}
	return found
}

func evalMarkers(cs *gen.Case) (failed bool, msg string, ran bool, err error) {
	res, err := runRel(cs)
	if err != nil {
		return false, "", false, err
	}
	if !res.OK() {
		return false, "", false, nil // a refusal is loud; C18 judges how it is made
	}
	want, err := markersOfCase(cs)
	if err != nil {
		return false, "", false, err
	}
	found := structsWithKey(&res)
	var probs []string
	for _, w := range want {
		total := 0
		var places []string
		outs := make([]string, 0, len(found[w.key]))
		for o := range found[w.key] {
			outs = append(outs, o)
		}
		sort.Strings(outs)
		for _, o := range outs {
			total += len(found[w.key][o])
			places = append(places, fmt.Sprintf("%s:%s", o, strings.Join(found[w.key][o], ",")))
		}
		switch {
		case total == 0:
			probs = append(probs, fmt.Sprintf("the %s of %s (property %q) is not emitted anywhere although the run reports success", w.where, w.file, w.key))
		case total > 1:
			probs = append(probs, fmt.Sprintf("the %s of %s (property %q) is emitted %d times: %s", w.where, w.file, w.key, total, strings.Join(places, " ")))
		case len(found[w.key][w.output]) != 1:
			probs = append(probs, fmt.Sprintf("the %s of %s (property %q) is emitted in %s, its id is mapped to %s", w.where, w.file, w.key, strings.Join(places, " "), w.output))
		}
	}
	// (b) a root that refers to itself keeps doing so wherever and whenever it is generated
	for _, w := range want {
		if w.where != "root" || len(found[w.key][w.output]) != 1 {
			continue
		}
		typeName := found[w.key][w.output][0]
		p, err := parseOut(res.Sources[w.output])
		if err != nil {
			continue
		}
		ast.Inspect(p.file, func(n ast.Node) bool {
			ts, ok := n.(*ast.TypeSpec)
			if !ok || ts.Name.Name != typeName {
				return true
			}
			st, ok := ts.Type.(*ast.StructType)
			if !ok {
				return false
			}
			for _, fl := range st.Fields.List {
				if fl.Tag == nil {
					continue
				}
				raw, _ := strconv.Unquote(fl.Tag.Value)
				name := strings.Split(reflect.StructTag(raw).Get("json"), ",")[0]
				if name != "zkids" && name != "znext" {
					continue
				}
				if te := p.print(fl.Type); !strings.Contains(te, typeName) {
					probs = append(probs, fmt.Sprintf("the root of %s refers to itself through %q, the emitted field has type %s instead of a type built on %s", w.file, name, te, typeName))
				}
			}
			return false
		})
	}
	// (c) nothing is emitted for a mapping whose id no loaded schema carries
	loaded := map[string]bool{}
	outOfLoaded := map[string]bool{cs.Config.DefaultOutput: true}
	for _, f := range cs.Files {
		if v, err := jv.Parse([]byte(f.Text)); err == nil {
			if x, ok := v.Get("$id"); ok {
				loaded[x.S] = true
			}
		}
	}
	for _, m := range cs.Config.Mappings {
		if loaded[m.ID] {
			outOfLoaded[m.Output] = true
		}
	}
	for _, m := range cs.Config.Mappings {
		if !loaded[m.ID] && m.Output != "" && !outOfLoaded[m.Output] {
			if _, ok := res.Sources[m.Output]; ok {
				probs = append(probs, fmt.Sprintf("output %s is emitted for the mapping of id %s, which no schema of the run carries", m.Output, m.ID))
			}
		}
	}
	sort.Strings(probs)
	return len(probs) > 0, strings.Join(probs, "\n"), true, nil
}

// markerCase draws the files. Root names collide by construction in most cases.
func markerCase(t *rapid.T, c *core.Ctx) *gen.Case {
	k := rapid.IntRange(2, 3).Draw(t, "nfiles")
	dirs := []string{"d1", "d2", "d3", "", "d1/sub"}
	// base names that the tool maps to one identifier, or simply equal
	families := [][]string{
		{"foo.json", "foo.json", "foo.json"},
		{"foo_bar.json", "foo-bar.json", "fooBar.json"},
		{"item.json", "Item.json", "item.json"},
		{"a.json", "b.json", "c.json"}, // distinct names: the control group
	}
	fam := rapid.SampledFrom(families).Draw(t, "namefamily")
	mode := rapid.IntRange(0, 3).Draw(t, "mapmode") // 0 all default, 1 own output same package, 2 own package, 3 mixed
	titles := rapid.IntRange(0, 3).Draw(t, "titles") == 0
	cfg := gen.Config{DefaultPackage: "example.com/gen/defpkg", DefaultOutput: "out/defpkg/default.go"}
	cfg.StructNameFromTitle = titles
	cs := &gen.Case{}
	used := map[string]bool{}
	next := 0
	marker := func() string { next++; return fmt.Sprintf("mk%d", next) }
	otherPool := []string{`"name":{"type":"string"}`, `"count":{"type":"integer","minimum":1}`, `"tags":{"type":"array","items":{"type":"string"}}`, `"flag":{"type":"boolean"}`}
	for i := 0; i < k; i++ {
		var rel string
		for tries := 0; ; tries++ {
			d := rapid.SampledFrom(dirs).Draw(t, "dir")
			rel = fam[i]
			if d != "" {
				rel = d + "/" + fam[i]
			}
			// paths that differ only in letter case are one file on some systems: not generated
			if !used[strings.ToLower(rel)] {
				break
			}
			if tries > 20 {
				rel = fmt.Sprintf("x%d/%s", i, fam[i])
				break
			}
		}
		used[strings.ToLower(rel)] = true
		id := fmt.Sprintf("https://example.com/m%d", i)
		props := []string{fmt.Sprintf(`%q:{"type":"string"}`, marker())}
		for _, o := range otherPool {
			if rapid.Bool().Draw(t, "otherprop") {
				props = append(props, o)
			}
		}
		// a recursive shape: the root refers to itself (directly or as array items)
		switch rapid.IntRange(0, 3).Draw(t, "selfref") {
		case 0:
			props = append(props, `"zkids":{"type":"array","items":{"$ref":"#"}}`)
		case 1:
			props = append(props, `"znext":{"$ref":"#"}`)
		}
		var sb strings.Builder
		fmt.Fprintf(&sb, `{"$id":%q,`, id)
		if titles {
			fmt.Fprintf(&sb, `"title":%q,`, rapid.SampledFrom([]string{"Item", "item", "Order"}).Draw(t, "title"))
		}
		fmt.Fprintf(&sb, `"type":"object","properties":{%s}`, strings.Join(props, ","))
		// definitions: unique names, or (a fifth) one named like the root type the tool derives
		nd := rapid.IntRange(0, 2).Draw(t, "ndefs")
		var defs []string
		for j := 0; j < nd; j++ {
			name := fmt.Sprintf("Def%d%c", i, 'A'+j)
			if j == 0 && rapid.IntRange(0, 4).Draw(t, "rootnameddef") == 0 {
				name = rootNameOf(rel, "")
			}
			defs = append(defs, fmt.Sprintf(`%q:{"type":"object","properties":{%q:{"type":"integer"}}}`, name, marker()))
		}
		if len(defs) > 0 {
			fmt.Fprintf(&sb, `,"$defs":{%s}`, strings.Join(defs, ","))
		}
		sb.WriteString("}")
		cs.Files = append(cs.Files, gen.FileText{RelPath: rel, Text: sb.String()})
		cs.Inputs = append(cs.Inputs, rel)
		own := mode == 1 || mode == 2 || (mode == 3 && rapid.Bool().Draw(t, "ownmapping"))
		if own {
			pkg := cfg.DefaultPackage
			if mode == 2 || (mode == 3 && rapid.Bool().Draw(t, "ownpkg")) {
				pkg = fmt.Sprintf("example.com/gen/pkg%d", i)
			}
			cfg.Mappings = append(cfg.Mappings, gen.Mapping{ID: id, Package: pkg, Output: fmt.Sprintf("out/%s/m%d.go", pkg[strings.LastIndex(pkg, "/")+1:], i)})
		}
	}
	if rapid.IntRange(0, 2).Draw(t, "absentmapping") == 0 {
		// a mapping for an id that no schema of the run carries (a shared flag set): nothing is
		// to be emitted for it
		cfg.Mappings = append(cfg.Mappings, gen.Mapping{ID: "https://example.com/absent", Package: "example.com/gen/absentpkg", Output: "out/absentpkg/absent.go"})
		c.Count("markers.mapping_for_absent_id")
	}
	cs.Inputs = rapid.Permutation(cs.Inputs).Draw(t, "argorder")
	cs.Config = cfg
	return cs
}

func runMarkers(c *core.Ctx) {
	var last *core.Replay
	refused := 0
	res := c.Rapid("markers", c.N(300, 6000), 7, func(rt *rapid.T) {
		cs := markerCase(rt, c)
		failed, msg, ran, err := evalMarkers(cs)
		if err != nil {
			c.Infra(err.Error())
			return
		}
		if !ran {
			refused++
			c.Count("markers.refused")
			return
		}
		c.Eval(1)
		c.Program(1)
		c.Count("markers.cases")
		c.NonTrivial("markers", cs.Files[0].Text, cs.Files[1].Text, strings.Join(cs.Config.Args(), " "), strings.Join(cs.Inputs, " "))
		if failed {
			last = &core.Replay{Check: "markers", Case: cs, Expected: "every marked schema is emitted exactly once, in the output mapped to its file's id", Observed: msg}
			rt.Fatalf("%s", msg)
		}
	})
	if res.Failed {
		if last != nil {
			c.Violation("markers:"+normMsg(firstLine(last.Observed)), last.Observed, last)
		} else {
			c.Infra("rapid failed without a case: " + core.Clip(res.Msg, 400))
		}
	}
}
