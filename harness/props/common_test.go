package props

import (
	"encoding/json"
	"fmt"
	"os"
	"path/filepath"
	"sort"
	"strings"
	"testing"

	"pgregory.net/rapid"

	"verif/harness/batch"
	"verif/harness/core"
	"verif/harness/docs"
	"verif/harness/gen"
	"verif/harness/goast"
	"verif/harness/jv"
	"verif/harness/model"
	"verif/harness/oracle"
	"verif/harness/sgen"
)

func TestMain(m *testing.M) {
	code := m.Run()
	batch.Cleanup()
	os.Exit(code)
}

// caseOf renders model files into a tool invocation.
func caseOf(cfg gen.Config, inputs []string, files ...*model.File) *gen.Case {
	c := &gen.Case{Config: cfg, Inputs: inputs}
	for _, f := range files {
		c.Files = append(c.Files, gen.FileText{RelPath: f.RelPath, Text: string(f.Bytes())})
	}
	return c
}

// packagesOf groups the sources of a run into Go packages: files in the same
// directory with the same package clause form one package. The import path of a
// mapped package is its configured package name when that is a path, otherwise
// a synthetic one.
func packagesOf(c *gen.Case, res *gen.Result) []goast.Pkg {
	pkgOfFile := map[string]string{}
	for _, m := range c.Config.Mappings {
		if m.Output != "" && m.Package != "" {
			pkgOfFile[m.Output] = m.Package
		}
	}
	byPkg := map[string]*goast.Pkg{}
	for _, name := range res.SortedNames() {
		ip := pkgOfFile[name]
		if ip == "" {
			ip = c.Config.DefaultPackage
		}
		if ip == "" {
			ip = "verifpkg"
		}
		p, ok := byPkg[ip]
		if !ok {
			p = &goast.Pkg{ImportPath: ip, Files: map[string]string{}}
			byPkg[ip] = p
		}
		p.Files[name] = res.Sources[name]
	}
	keys := make([]string, 0, len(byPkg))
	for k := range byPkg {
		keys = append(keys, k)
	}
	sort.Strings(keys)
	out := make([]goast.Pkg, 0, len(keys))
	for _, k := range keys {
		out = append(out, *byPkg[k])
	}
	return out
}

func describeCase(c *gen.Case) map[string]any {
	files := map[string]string{}
	for _, f := range c.Files {
		files[f.RelPath] = core.Clip(f.Text, 1500)
	}
	return map[string]any{"files": files, "args": strings.Join(append(c.Config.Args(), c.Inputs...), " ")}
}

func baseConfig() gen.Config {
	return gen.Config{DefaultPackage: "verifpkg", DefaultOutput: "-"}
}

// drawOptions draws a random option combination (C01/C12/C16 full mix).
func drawOptions(t *rapid.T) gen.Config {
	cfg := baseConfig()
	cfg.ExtraImports = rapid.Bool().Draw(t, "extraImports")
	cfg.OnlyModels = rapid.IntRange(0, 4).Draw(t, "onlyModels") == 0
	cfg.MinSizedInts = rapid.Bool().Draw(t, "minSizedInts")
	cfg.StructNameFromTitle = rapid.Bool().Draw(t, "nameFromTitle")
	switch rapid.IntRange(0, 4).Draw(t, "tagsel") {
	case 0:
		cfg.Tags = []string{"json"}
	case 1:
		cfg.Tags = []string{"json", "yaml"}
	case 2:
		cfg.Tags = []string{"json", "toml", "xml"}
	case 3:
		cfg.Tags = []string{"yaml", "mapstructure", "json"}
	}
	if rapid.Bool().Draw(t, "hascaps") {
		cfg.Capitalizations = rapid.SliceOfN(rapid.SampledFrom([]string{"ID", "URL", "API", "Ab", "aB", "HTTP", "Id"}), 1, 3).Draw(t, "caps")
	}
	return cfg
}

func fullMixProfile(c *core.Ctx) *sgen.Profile {
	return &sgen.Profile{
		MaxDepth: 3, MinProps: 1, MaxProps: 8, MaxDefs: 4, ArrayDepth: 3,
		WString: 5, WInteger: 4, WNumber: 4, WBoolean: 2, WObject: 4, WArray: 4, WEnum: 3, WRef: 4, WAny: 1, WNull: 1, WAllOf: 1, WAnyOf: 1, WMap: 1,
		PConstraint: 0.45, PNullable: 0.2, PRequired: 0.4, PDefault: 0.2, PFormat: 0.15, PDesc: 0.3, PAdditional: 0.15,
		HostileText: true, InlineItemConstraints: true, MixedEnums: true, UntypedAdditional: true,
		Avoid: c.Avoid, Excluded: c.ExcludedMap(), Sat: docs.Satisfiable,
	}
}

// wrappedEnum reports whether the tool represents the enum as a struct
// wrapper (mixed value types or null members).
func wrappedEnum(n *model.Node) bool {
	if n.Kind != model.KEnum {
		return false
	}
	if n.EnumType == "null" {
		return true
	}
	if n.EnumType != "" {
		return false
	}
	kinds := map[string]bool{}
	for _, v := range n.EnumVals {
		kinds[v.K.String()] = true
	}
	return len(kinds) > 1 || kinds["null"]
}

// defaultAllowed applies the known-finding exclusion switches about default
// values (DESIGN.md Appendix A7) to a property schema.
func defaultAllowed(c *core.Ctx, n *model.Node) bool {
	ex := c.ExcludedMap()
	no := func(sw string) bool {
		if c.Avoid(sw) {
			ex[sw]++
			return true
		}
		return false
	}
	rn := n.Resolve()
	if rn == nil {
		return false
	}
	// the finding is about pointer fields; a nullable array is a slice and takes its default
	if n.Nullable && rn.Kind != model.KArray && no("defaults.on_nullable") {
		return false
	}
	switch rn.Kind {
	case model.KString:
		if rn.Format != "" && no("defaults.on_format") {
			return false
		}
	case model.KEnum:
		if wrappedEnum(rn) && no("defaults.on_wrapped_enum") {
			return false
		}
	case model.KObject, model.KAllOf, model.KAnyOf:
		if no("defaults.on_object") {
			return false
		}
	case model.KAny:
		if no("defaults.on_untyped") {
			return false
		}
	case model.KArray:
		it := rn.Items
		if it != nil {
			if r := it.Resolve(); r != nil && r.Kind == model.KArray && no("defaults.nested_arrays") {
				return false
			}
		}
		for it != nil {
			r := it.Resolve()
			if r == nil {
				return false
			}
			if r.Kind == model.KArray {
				it = r.Items
				continue
			}
			return defaultAllowed(c, r)
		}
	}
	return true
}

func tmpDir(t testing.TB, prefix string) string {
	d, err := os.MkdirTemp("", prefix)
	if err != nil {
		t.Fatal(err)
	}
	return d
}

func must(err error) {
	if err != nil {
		panic(err)
	}
}

var _ = filepath.Join
var _ = fmt.Sprintf

func jsonMarshal(v any) ([]byte, error)   { return json.Marshal(v) }
func jsonUnmarshal(b []byte, v any) error { return json.Unmarshal(b, v) }

// addOptionalDefaults gives optional properties (never required ones) of every
// object in the file a default that satisfies their own constraints, with
// probability p: "absent or null optional values are never checked" has to
// hold for a defaulted property too, whose zero value may violate the bound.
func addOptionalDefaults(t *rapid.T, c *core.Ctx, f *model.File, p float64, o *docs.Opts) {
	visit := func(x *model.Node) {
		if x.Kind != model.KObject {
			return
		}
		for _, pr := range x.Props {
			n := pr.Node
			if n.Default != nil || x.IsRequired(pr.Name) || n.Kind == model.KRef || !defaultAllowed(c, n) {
				continue
			}
			if rapid.IntRange(0, 999).Draw(t, "optdefault") >= int(p*1000) {
				continue
			}
			oo := *o
			oo.NoNulls = true
			v, ok := docs.Valid(t, n, &oo)
			if !ok || !docs.Float64Exact(v) {
				continue
			}
			n.Default = &v
			c.Count("shape.optional_default." + n.Kind.String())
		}
	}
	// not inside allOf/anyOf branches: whether the default of a branch the document did not
	// select applies is not something the property (or JSON Schema) settles
	var walk func(n *model.Node)
	walk = func(n *model.Node) {
		if n == nil || n.Kind == model.KAllOf || n.Kind == model.KAnyOf {
			return
		}
		visit(n)
		for _, pr := range n.Props {
			walk(pr.Node)
		}
		if n.Additional != nil {
			walk(n.Additional.Schema)
		}
		walk(n.Items)
	}
	walk(f.Root)
	for _, d := range f.Defs {
		walk(d.Node)
	}
}

// addNullListedEnums: enums whose members are values of ONE JSON type plus null
// (untyped, or with the type list [T,"null"]), at a required property and as
// array items: the listed null is a valid document value there.
func addNullListedEnums(t *rapid.T, c *core.Ctx, f *model.File) {
	mk := func(label string) *model.Node {
		n := &model.Node{Kind: model.KEnum}
		tn := ""
		switch rapid.IntRange(0, 2).Draw(t, label+"kind") {
		case 0:
			tn = "string"
			for _, s := range rapid.SliceOfNDistinct(rapid.SampledFrom([]string{"low", "high", "mid", "", "n/a"}), 1, 3, func(s string) string { return s }).Draw(t, label+"vals") {
				n.EnumVals = append(n.EnumVals, jv.StrV(s))
			}
		case 1:
			tn = "number"
			for _, x := range rapid.SliceOfNDistinct(rapid.SampledFrom([]float64{0, 0.5, 1.25, 2, 100}), 1, 3, func(x float64) float64 { return x }).Draw(t, label+"vals") {
				n.EnumVals = append(n.EnumVals, jv.FloatV(x))
			}
		default:
			tn = "boolean"
			n.EnumVals = append(n.EnumVals, jv.BoolV(rapid.Bool().Draw(t, label+"b")))
		}
		pos := rapid.IntRange(0, len(n.EnumVals)).Draw(t, label+"nullpos")
		n.EnumVals = append(n.EnumVals[:pos:pos], append([]jv.V{jv.NullV()}, n.EnumVals[pos:]...)...)
		if rapid.Bool().Draw(t, label+"typed") {
			n.EnumTypes = []string{tn, "null"}
			if rapid.Bool().Draw(t, label+"nullfirst") {
				n.EnumTypes = []string{"null", tn}
			}
		}
		return n
	}
	f.Root.Props = append(f.Root.Props,
		model.Prop{Name: "znullenum", Node: mk("ne")},
		model.Prop{Name: "znullenumlist", Node: &model.Node{Kind: model.KArray, Items: mk("nel")}})
	f.Root.Required = append(f.Root.Required, "znullenum", "znullenumlist")
	c.Count("shape.enum_listing_null_single_type")
}

// directedJobs: hand-shaped documents for a directed scenario. Each entry sets
// the given root keys on top of a minimal valid document (required keys only);
// the oracle decides whether the result is to be accepted (with the expected
// decoded value) or rejected (exactly one violated rule, else the entry is dropped).
func directedJobs(t *rapid.T, c *core.Ctx, root *model.Node, o *docs.Opts, label string, sets []map[string]string) []core.Job {
	return directedJobsV(t, c, root, o, label, sets, true)
}

// directedJobsV: with values=false only the verdict is judged (scenarios in which the
// Go representation of an accepted value - struct or map - is not the subject).
func directedJobsV(t *rapid.T, c *core.Ctx, root *model.Node, o *docs.Opts, label string, sets []map[string]string, values bool) []core.Job {
	var jobs []core.Job
	oo := *o
	oo.NoProps = true
	base, ok := docs.Valid(t, root, &oo)
	if !ok || base.K != jv.Obj {
		return nil
	}
	for _, set := range sets {
		v := base.Clone()
		keys := make([]string, 0, len(set))
		for k := range set {
			keys = append(keys, k)
		}
		sort.Strings(keys)
		for _, k := range keys {
			v = v.Set(k, jv.MustParse(set[k]))
		}
		vs := oracle.Validate(root, v)
		switch {
		case len(vs) == 0:
			j := core.Job{Type: progRoot, Op: "json", Doc: string(v.Marshal()), Expect: "accept", Label: label + ":valid"}
			if values {
				j.ExpectVal = expJSON(docs.Expect(root, v))
			}
			jobs = append(jobs, j)
			c.Count("doc.directed.valid")
		case len(vs) == 1:
			jobs = append(jobs, core.Job{Type: progRoot, Op: "json", Doc: string(v.Marshal()), Expect: "reject", Rule: vs[0].String(), Label: label + ":" + vs[0].Rule})
			c.Count("doc.directed.reject")
		default:
			c.Count("doc.directed.dropped")
		}
	}
	return jobs
}

// addSharedBaseAllOf: two allOf lists over the same base definition ("Base +
// extension"); the list generated first adds a property with a default, the
// later one adds the same-named property without default and requires it.
func addSharedBaseAllOf(t *rapid.T, c *core.Ctx, f *model.File) []map[string]string {
	base := &model.Node{Kind: model.KObject, Props: []model.Prop{{Name: "id", Node: &model.Node{Kind: model.KString}}}, Required: []string{"id"}}
	f.Defs = append(f.Defs, model.Def{Name: "ZResource", Node: base})
	ref := func() *model.Node { return &model.Node{Kind: model.KRef, Ref: "#/$defs/ZResource", Target: base} }
	dv := jv.StrV("draft")
	withDefault := &model.Node{Kind: model.KObject, Props: []model.Prop{{Name: "status", Node: &model.Node{Kind: model.KString, Default: &dv}}}}
	required := &model.Node{Kind: model.KObject, Props: []model.Prop{{Name: "status", Node: &model.Node{Kind: model.KString}}}, Required: []string{"status"}}
	// names decide the generation order (properties are visited alphabetically)
	first, second := "zadraft", "zbpublished"
	if rapid.Bool().Draw(t, "sharedbaseorder") {
		first, second = "zbdraft", "zapublished"
	}
	f.Root.Props = append(f.Root.Props,
		model.Prop{Name: first, Node: &model.Node{Kind: model.KAllOf, Branches: []*model.Node{ref(), withDefault}}},
		model.Prop{Name: second, Node: &model.Node{Kind: model.KAllOf, Branches: []*model.Node{ref(), required}}})
	c.Count("shape.shared_base_allof_default_then_required")
	return []map[string]string{
		{second: `{"id":"2"}`},
		{second: `{"id":"2","status":"live"}`},
		{second: `{"status":"live"}`},
		{first: `{"id":"1","status":"x"}`},
		{first: `{"id":"1","status":"x"}`, second: `{"id":"2"}`},
	}
}

// addNestedAnyOfShared: an anyOf whose inline object branch holds another anyOf
// over the definitions that are also listed as later branches of the outer list
// (payment = anyOf[{split: [anyOf[Card, Bank]]}, Card, Bank]).
func addNestedAnyOfShared(t *rapid.T, c *core.Ctx, f *model.File) []map[string]string {
	card := &model.Node{Kind: model.KObject, Props: []model.Prop{{Name: "pan", Node: &model.Node{Kind: model.KString}}}, Required: []string{"pan"}}
	bank := &model.Node{Kind: model.KObject, Props: []model.Prop{{Name: "iban", Node: &model.Node{Kind: model.KString}}}, Required: []string{"iban"}}
	f.Defs = append(f.Defs, model.Def{Name: "ZCard", Node: card}, model.Def{Name: "ZBank", Node: bank})
	rc := func() *model.Node { return &model.Node{Kind: model.KRef, Ref: "#/$defs/ZCard", Target: card} }
	rb := func() *model.Node { return &model.Node{Kind: model.KRef, Ref: "#/$defs/ZBank", Target: bank} }
	inner := &model.Node{Kind: model.KAnyOf, Branches: []*model.Node{rc(), rb()}}
	var holder *model.Node
	if rapid.Bool().Draw(t, "nestedanyofarray") {
		holder = &model.Node{Kind: model.KArray, Items: inner}
	} else {
		holder = inner
	}
	inline := &model.Node{Kind: model.KObject, Props: []model.Prop{{Name: "split", Node: holder}}, Required: []string{"split"}}
	f.Root.Props = append(f.Root.Props, model.Prop{Name: "zpayment", Node: &model.Node{Kind: model.KAnyOf, Branches: []*model.Node{inline, rc(), rb()}}})
	c.Count("shape.nested_anyof_shares_later_branches")
	if holder.Kind == model.KArray {
		return []map[string]string{
			{"zpayment": `{"split":[{"pan":"4111"},{"iban":"DE1"}]}`},
			{"zpayment": `{"split":[{"pan":"4111"},{}]}`},
			{"zpayment": `{"split":[{}]}`},
			{"zpayment": `{"pan":"4111"}`},
			{"zpayment": `{"iban":"DE1"}`},
		}
	}
	return []map[string]string{
		{"zpayment": `{"split":{"pan":"4111"}}`},
		{"zpayment": `{"split":{}}`},
		{"zpayment": `{"pan":"4111"}`},
		{"zpayment": `{"iban":"DE1"}`},
	}
}

// maybeStaleLegacy: with probability 1/den the file states its definitions under
// both container keywords, the legacy one holding an out-of-date copy (other
// types, no constraints) that no reference names.
func maybeStaleLegacy(t *rapid.T, c *core.Ctx, f *model.File, den int) {
	if len(f.Defs) == 0 || f.Spelling.LegacyDefs || f.Spelling.PointerOther {
		return
	}
	if rapid.IntRange(0, den-1).Draw(t, "stalelegacy") == 0 {
		f.Spelling.BothDefs, f.Spelling.StaleLegacy = true, true
		c.Count("shape.stale_legacy_definitions")
	}
}

// collidingNameSets: definition names that map to one Go identifier.
var collidingNameSets = [][]string{
	{"zip-code", "zip_code", "ZipCode"},
	{"Level", "level", "level_"},
	{"a_b", "a.b", "A-B"},
	{"route hops", "RouteHops", "route_hops"},
}

// addCollidingDefs adds 2-3 definitions whose names map to the same Go
// identifier and whose schemas differ in nothing but the constraint family
// under test (the third, when present, may repeat the second exactly). Each is
// referenced from a required root property and one of them also as array
// items: every reference must be checked by its own definition's rules.
func addCollidingDefs(t *rapid.T, c *core.Ctx, f *model.File, family string) {
	if f.Root.Kind != model.KObject {
		return
	}
	ip := func(v int) *int { return &v }
	fp := func(v float64) *float64 { return &v }
	names := rapid.SampledFrom(collidingNameSets).Draw(t, "colnames")
	names = rapid.Permutation(names).Draw(t, "colorder")
	n := rapid.IntRange(2, 3).Draw(t, "coln")
	variant := func(i int) *model.Node {
		switch family {
		case "string":
			switch i {
			case 0:
				return &model.Node{Kind: model.KString, MinLength: ip(2), MaxLength: ip(4)}
			case 1:
				return &model.Node{Kind: model.KString, MinLength: ip(5), MaxLength: ip(7)}
			}
			return &model.Node{Kind: model.KString, MinLength: ip(2), MaxLength: ip(4), Pattern: "^[a-z]+$"}
		case "numeric":
			switch i {
			case 0:
				return &model.Node{Kind: model.KInteger, Minimum: fp(0), Maximum: fp(10)}
			case 1:
				return &model.Node{Kind: model.KInteger, Minimum: fp(20), Maximum: fp(30)}
			}
			return &model.Node{Kind: model.KInteger, Minimum: fp(0), Maximum: fp(10), MultipleOf: fp(5)}
		case "array":
			lim := [][2]int{{1, 2}, {3, 4}, {0, 1}}[i]
			return &model.Node{Kind: model.KObject, Props: []model.Prop{
				{Name: "nodes", Node: &model.Node{Kind: model.KArray, Items: &model.Node{Kind: model.KString}, MinItems: ip(lim[0]), MaxItems: ip(lim[1])}},
			}, Required: []string{"nodes"}}
		case "enum":
			vals := [][]string{{"low", "high"}, {"debug", "info", "warn"}, {"x", "y"}}[i]
			e := &model.Node{Kind: model.KEnum, EnumType: "string"}
			for _, v := range vals {
				e.EnumVals = append(e.EnumVals, jv.StrV(v))
			}
			return e
		case "defaultvalue":
			// identical but for the default values
			dn, ds := jv.IntV([]int64{3, 5, 7}[i]), jv.StrV([]string{"strict", "lenient", "off"}[i])
			return &model.Node{Kind: model.KObject, Props: []model.Prop{
				{Name: "maxRetries", Node: &model.Node{Kind: model.KInteger, Default: &dn}},
				{Name: "mode", Node: &model.Node{Kind: model.KString, Default: &ds}},
			}}
		case "default":
			// identical but for annotations: only the first gives the required host a default
			host := &model.Node{Kind: model.KString}
			if i == 0 {
				dv := jv.StrV("localhost")
				host.Default = &dv
				host.Desc = "with a default"
			}
			return &model.Node{Kind: model.KObject, Props: []model.Prop{{Name: "host", Node: host}, {Name: "port", Node: &model.Node{Kind: model.KInteger}}}, Required: []string{"host", "port"}}
		default: // required
			req := [][]string{{"a"}, {"a", "b"}, {"b", "c"}}[i]
			return &model.Node{Kind: model.KObject, Props: []model.Prop{
				{Name: "a", Node: &model.Node{Kind: model.KString}}, {Name: "b", Node: &model.Node{Kind: model.KInteger}}, {Name: "c", Node: &model.Node{Kind: model.KBoolean}},
			}, Required: req}
		}
	}
	third := rapid.SampledFrom([]int{1, 1, 2}).Draw(t, "colthird") // the third usually repeats the second
	for i := 0; i < n; i++ {
		vi := i
		if i == 2 {
			vi = third
		}
		def := variant(vi)
		f.Defs = append(f.Defs, model.Def{Name: names[i], Node: def})
		ref := func() *model.Node { return &model.Node{Kind: model.KRef, Ref: "#/$defs/" + names[i], Target: def} }
		pn := fmt.Sprintf("zcol%d", i)
		f.Root.Props = append(f.Root.Props, model.Prop{Name: pn, Node: ref()})
		f.Root.Required = append(f.Root.Required, pn)
		if i == n-1 {
			f.Root.Props = append(f.Root.Props, model.Prop{Name: "zcolitems", Node: &model.Node{Kind: model.KArray, Items: ref(), MinItems: ip(1)}})
			f.Root.Required = append(f.Root.Required, "zcolitems")
		}
	}
	c.Count(fmt.Sprintf("shape.colliding_defs.%s.%d", family, n))
}

// countShapes tallies which schema features and options a run case carries
// (evidence: the distribution the generator actually produced).
func countShapes(c *core.Ctx, f *model.File, cfg gen.Config) {
	seen := map[string]bool{}
	visit := func(n *model.Node) {
		seen["kind."+n.Kind.String()] = true
		if n.Nullable {
			seen["nullable."+n.Kind.String()] = true
		}
		if n.Format != "" {
			seen["format."+n.Format] = true
		}
		if n.Default != nil {
			seen["default."+n.Kind.String()] = true
		}
		if n.Additional != nil {
			switch {
			case n.Additional.False:
				seen["additional.false"] = true
			case n.Additional.Schema != nil && n.Additional.Schema.Kind == model.KAny:
				seen["additional.untyped"] = true
			case n.Additional.Schema != nil:
				seen["additional."+n.Additional.Schema.Kind.String()] = true
			}
		}
		if n.Kind == model.KArray && n.Items != nil && n.Items.Kind == model.KArray {
			seen["array.nested"] = true
		}
		if (n.Kind == model.KAllOf || n.Kind == model.KAnyOf) && len(n.Branches) > 0 {
			seen[fmt.Sprintf("%s.%d_branches", n.Kind, len(n.Branches))] = true
		}
	}
	model.Walk(f.Root, visit)
	for _, d := range f.Defs {
		model.Walk(d.Node, visit)
		seen["definition."+d.Node.Kind.String()] = true
	}
	for k := range seen {
		c.Count("schema." + k)
	}
	for _, a := range cfg.Args() {
		if strings.HasPrefix(a, "--") {
			c.Count("option." + a)
		}
	}
}

// schemaURIs: "$schema" values of every draft (the tool does not read the keyword; stating it
// must change nothing).
var schemaURIs = []string{"", "", "http://json-schema.org/draft-04/schema#", "http://json-schema.org/draft-06/schema#",
	"http://json-schema.org/draft-07/schema#", "https://json-schema.org/draft/2019-09/schema", "https://json-schema.org/draft/2020-12/schema"}

// addMergeOverlayScenario: definition ZBase with one constrained property, a
// property zstrict = allOf[$ref ZBase, {same property with ANOTHER keyword of the
// family}] and a property zloose = plain $ref ZBase: the overlay must not leak
// into the definition used on its own. family: "string" or "array". Returns
// the root property names whose positions are judged (zloose only: what the
// merged type does with overlapping branches is C11's open finding).
func addMergeOverlayScenario(t *rapid.T, c *core.Ctx, f *model.File, family string) []string {
	ip := func(v int) *int { return &v }
	var baseProp, overlayProp *model.Node
	switch family {
	case "string":
		baseProp = &model.Node{Kind: model.KString, MinLength: ip(2)}
		overlayProp = &model.Node{Kind: model.KString, MaxLength: ip(5)}
		if rapid.Bool().Draw(t, "overlaypattern") {
			overlayProp = &model.Node{Kind: model.KString, Pattern: "^[a-z]+$"}
		}
	default:
		baseProp = &model.Node{Kind: model.KArray, Items: &model.Node{Kind: model.KString}, MinItems: ip(2)}
		overlayProp = &model.Node{Kind: model.KArray, Items: &model.Node{Kind: model.KString}, MaxItems: ip(4)}
	}
	base := &model.Node{Kind: model.KObject, Props: []model.Prop{{Name: "p", Node: baseProp}, {Name: "other", Node: &model.Node{Kind: model.KBoolean}}}, Required: []string{"p"}}
	f.Defs = append(f.Defs, model.Def{Name: "ZBase", Node: base})
	ref := func() *model.Node { return &model.Node{Kind: model.KRef, Ref: "#/$defs/ZBase", Target: base} }
	overlay := &model.Node{Kind: model.KObject, Props: []model.Prop{{Name: "p", Node: overlayProp}}}
	kind := model.KAllOf
	if rapid.IntRange(0, 3).Draw(t, "overlayanyof") == 0 {
		kind = model.KAnyOf
		overlay.Required = []string{"p"}
	}
	// zstrict is named so that it is generated before ("a...") or after ("zz...") zloose
	strictName := rapid.SampledFrom([]string{"astrict", "zzstrict"}).Draw(t, "overlayorder")
	f.Root.Props = append(f.Root.Props,
		model.Prop{Name: strictName, Node: &model.Node{Kind: kind, Branches: []*model.Node{ref(), overlay}}},
		model.Prop{Name: "zloose", Node: ref()},
		model.Prop{Name: "zlooselist", Node: &model.Node{Kind: model.KArray, Items: ref()}})
	c.Count("shape.merge_overlay." + family + "." + kind.String())
	return []string{"zloose", "zlooselist"}
}

// scenarioOnlyJobs: documents that carry nothing but the named (optional) root
// properties plus whatever the root requires: valid ones at the boundaries and
// the single-fault mutants below them.
func scenarioOnlyJobs(t *rapid.T, c *core.Ctx, root *model.Node, props []string, kinds map[string]bool, o *docs.Opts) []core.Job {
	var jobs []core.Job
	want := map[string]bool{}
	for _, p := range props {
		want[p] = true
	}
	oo := *o
	oo.AllProps = true
	for k := 0; k < 3; k++ {
		full, ok := docs.Valid(t, root, &oo)
		if !ok {
			continue
		}
		// drop the optional properties that are not part of the scenario
		v := jv.ObjV()
		for _, kv := range full.O {
			if want[kv.K] || root.IsRequired(kv.K) {
				v.O = append(v.O, kv)
			}
		}
		if !oracle.Accepts(root, v) {
			continue
		}
		jobs = append(jobs, core.Job{Type: progRoot, Op: "json", Doc: string(v.Marshal()), Expect: "accept", ExpectVal: expJSON(docs.Expect(root, v)), Label: "scenario:valid"})
		c.Count("doc.scenario.valid")
		// the same document with every array and string below the scenario properties stretched
		// (an open-ended limit must stay open-ended)
		var stretch func(x jv.V) jv.V
		stretch = func(x jv.V) jv.V {
			switch x.K {
			case jv.Arr:
				a := jv.V{K: jv.Arr}
				for _, e := range x.A {
					a.A = append(a.A, stretch(e))
				}
				for len(a.A) > 0 && len(a.A) < 7 {
					a.A = append(a.A, a.A[0])
				}
				return a
			case jv.Obj:
				ob := jv.V{K: jv.Obj}
				for _, kv := range x.O {
					ob.O = append(ob.O, jv.KV{K: kv.K, V: stretch(kv.V)})
				}
				return ob
			case jv.Str:
				if len(x.S) > 0 && len(x.S) < 9 {
					return jv.StrV(x.S + strings.Repeat(x.S[len(x.S)-1:], 9-len(x.S)))
				}
			}
			return x
		}
		sv := jv.ObjV()
		for _, kv := range v.O {
			if want[kv.K] {
				sv.O = append(sv.O, jv.KV{K: kv.K, V: stretch(kv.V)})
			} else {
				sv.O = append(sv.O, kv)
			}
		}
		if oracle.Accepts(root, sv) && string(sv.Marshal()) != string(v.Marshal()) {
			jobs = append(jobs, core.Job{Type: progRoot, Op: "json", Doc: string(sv.Marshal()), Expect: "accept", ExpectVal: expJSON(docs.Expect(root, sv)), Label: "scenario:valid-stretched"})
			c.Count("doc.scenario.valid_stretched")
		}
		muts, _ := docs.Mutants(t, root, v, kinds, o)
		n := 0
		for i := range muts {
			m := &muts[i]
			under := false
			for _, p := range props {
				if m.Path == "/"+p || strings.HasPrefix(m.Path, "/"+p+"/") {
					under = true
				}
			}
			if !under || n >= 60 {
				continue
			}
			n++
			jobs = append(jobs, core.Job{Type: progRoot, Op: "json", Doc: string(m.Doc.Marshal()), Expect: "reject", Rule: m.Rule() + "@" + m.Path, Label: "scenario:" + strings.SplitN(m.Label, "<-", 2)[0]})
			c.Count("doc.scenario.reject")
		}
	}
	return jobs
}
