package props

import (
	"encoding/json"
	"fmt"
	"os"
	"path/filepath"
	"sort"
	"strings"
	"testing"

	"pgregory.net/rapid"

	"verif/harness/batch"
	"verif/harness/core"
	"verif/harness/docs"
	"verif/harness/gen"
	"verif/harness/goast"
	"verif/harness/jv"
	"verif/harness/model"
	"verif/harness/sgen"
)

func TestMain(m *testing.M) {
	code := m.Run()
	batch.Cleanup()
	os.Exit(code)
}

// caseOf renders model files into a tool invocation.
func caseOf(cfg gen.Config, inputs []string, files ...*model.File) *gen.Case {
	c := &gen.Case{Config: cfg, Inputs: inputs}
	for _, f := range files {
		c.Files = append(c.Files, gen.FileText{RelPath: f.RelPath, Text: string(f.Bytes())})
	}
	return c
}

// packagesOf groups the sources of a run into Go packages: files in the same
// directory with the same package clause form one package. The import path of a
// mapped package is its configured package name when that is a path, otherwise
// a synthetic one.
func packagesOf(c *gen.Case, res *gen.Result) []goast.Pkg {
	pkgOfFile := map[string]string{}
	for _, m := range c.Config.Mappings {
		if m.Output != "" && m.Package != "" {
			pkgOfFile[m.Output] = m.Package
		}
	}
	byPkg := map[string]*goast.Pkg{}
	for _, name := range res.SortedNames() {
		ip := pkgOfFile[name]
		if ip == "" {
			ip = c.Config.DefaultPackage
		}
		if ip == "" {
			ip = "verifpkg"
		}
		p, ok := byPkg[ip]
		if !ok {
			p = &goast.Pkg{ImportPath: ip, Files: map[string]string{}}
			byPkg[ip] = p
		}
		p.Files[name] = res.Sources[name]
	}
	keys := make([]string, 0, len(byPkg))
	for k := range byPkg {
		keys = append(keys, k)
	}
	sort.Strings(keys)
	out := make([]goast.Pkg, 0, len(keys))
	for _, k := range keys {
		out = append(out, *byPkg[k])
	}
	return out
}

func describeCase(c *gen.Case) map[string]any {
	files := map[string]string{}
	for _, f := range c.Files {
		files[f.RelPath] = core.Clip(f.Text, 1500)
	}
	return map[string]any{"files": files, "args": strings.Join(append(c.Config.Args(), c.Inputs...), " ")}
}

func baseConfig() gen.Config {
	return gen.Config{DefaultPackage: "verifpkg", DefaultOutput: "-"}
}

// drawOptions draws a random option combination (C01/C12/C16 full mix).
func drawOptions(t *rapid.T) gen.Config {
	cfg := baseConfig()
	cfg.ExtraImports = rapid.Bool().Draw(t, "extraImports")
	cfg.OnlyModels = rapid.IntRange(0, 4).Draw(t, "onlyModels") == 0
	cfg.MinSizedInts = rapid.Bool().Draw(t, "minSizedInts")
	cfg.StructNameFromTitle = rapid.Bool().Draw(t, "nameFromTitle")
	switch rapid.IntRange(0, 4).Draw(t, "tagsel") {
	case 0:
		cfg.Tags = []string{"json"}
	case 1:
		cfg.Tags = []string{"json", "yaml"}
	case 2:
		cfg.Tags = []string{"json", "toml", "xml"}
	case 3:
		cfg.Tags = []string{"yaml", "mapstructure", "json"}
	}
	if rapid.Bool().Draw(t, "hascaps") {
		cfg.Capitalizations = rapid.SliceOfN(rapid.SampledFrom([]string{"ID", "URL", "API", "Ab", "aB", "HTTP", "Id"}), 1, 3).Draw(t, "caps")
	}
	return cfg
}

func fullMixProfile(c *core.Ctx) *sgen.Profile {
	return &sgen.Profile{
		MaxDepth: 3, MinProps: 1, MaxProps: 8, MaxDefs: 4, ArrayDepth: 3,
		WString: 5, WInteger: 4, WNumber: 4, WBoolean: 2, WObject: 4, WArray: 4, WEnum: 3, WRef: 4, WAny: 1, WNull: 1, WAllOf: 1, WAnyOf: 1, WMap: 1,
		PConstraint: 0.45, PNullable: 0.2, PRequired: 0.4, PDefault: 0.2, PFormat: 0.15, PDesc: 0.3, PAdditional: 0.15,
		HostileText: true, InlineItemConstraints: true, MixedEnums: true, UntypedAdditional: true,
		Avoid: c.Avoid, Excluded: c.ExcludedMap(), Sat: docs.Satisfiable,
	}
}

// wrappedEnum reports whether the tool represents the enum as a struct
// wrapper (mixed value types or null members).
func wrappedEnum(n *model.Node) bool {
	if n.Kind != model.KEnum {
		return false
	}
	if n.EnumType == "null" {
		return true
	}
	if n.EnumType != "" {
		return false
	}
	kinds := map[string]bool{}
	for _, v := range n.EnumVals {
		kinds[v.K.String()] = true
	}
	return len(kinds) > 1 || kinds["null"]
}

// defaultAllowed applies the known-finding exclusion switches about default
// values (DESIGN.md Appendix A7) to a property schema.
func defaultAllowed(c *core.Ctx, n *model.Node) bool {
	ex := c.ExcludedMap()
	no := func(sw string) bool {
		if c.Avoid(sw) {
			ex[sw]++
			return true
		}
		return false
	}
	if n.Nullable && no("defaults.on_nullable") {
		return false
	}
	rn := n.Resolve()
	if rn == nil {
		return false
	}
	switch rn.Kind {
	case model.KString:
		if rn.Format != "" && no("defaults.on_format") {
			return false
		}
	case model.KEnum:
		if wrappedEnum(rn) && no("defaults.on_wrapped_enum") {
			return false
		}
	case model.KObject, model.KAllOf, model.KAnyOf:
		if no("defaults.on_object") {
			return false
		}
	case model.KAny:
		if no("defaults.on_untyped") {
			return false
		}
	case model.KArray:
		it := rn.Items
		if it != nil {
			if r := it.Resolve(); r != nil && r.Kind == model.KArray && no("defaults.nested_arrays") {
				return false
			}
		}
		for it != nil {
			r := it.Resolve()
			if r == nil {
				return false
			}
			if r.Kind == model.KArray {
				it = r.Items
				continue
			}
			return defaultAllowed(c, r)
		}
	}
	return true
}

func tmpDir(t testing.TB, prefix string) string {
	d, err := os.MkdirTemp("", prefix)
	if err != nil {
		t.Fatal(err)
	}
	return d
}

func must(err error) {
	if err != nil {
		panic(err)
	}
}

var _ = filepath.Join
var _ = fmt.Sprintf

func jsonMarshal(v any) ([]byte, error)   { return json.Marshal(v) }
func jsonUnmarshal(b []byte, v any) error { return json.Unmarshal(b, v) }

// addOptionalDefaults gives optional properties (never required ones) of every
// object in the file a default that satisfies their own constraints, with
// probability p: "absent or null optional values are never checked" has to
// hold for a defaulted property too, whose zero value may violate the bound.
func addOptionalDefaults(t *rapid.T, c *core.Ctx, f *model.File, p float64, o *docs.Opts) {
	visit := func(x *model.Node) {
		if x.Kind != model.KObject {
			return
		}
		for _, pr := range x.Props {
			n := pr.Node
			if n.Default != nil || x.IsRequired(pr.Name) || n.Kind == model.KRef || !defaultAllowed(c, n) {
				continue
			}
			if rapid.IntRange(0, 999).Draw(t, "optdefault") >= int(p*1000) {
				continue
			}
			oo := *o
			oo.NoNulls = true
			v, ok := docs.Valid(t, n, &oo)
			if !ok || !docs.Float64Exact(v) {
				continue
			}
			n.Default = &v
			c.Count("shape.optional_default." + n.Kind.String())
		}
	}
	// not inside allOf/anyOf branches: whether the default of a branch the document did not
	// select applies is not something the property (or JSON Schema) settles
	var walk func(n *model.Node)
	walk = func(n *model.Node) {
		if n == nil || n.Kind == model.KAllOf || n.Kind == model.KAnyOf {
			return
		}
		visit(n)
		for _, pr := range n.Props {
			walk(pr.Node)
		}
		if n.Additional != nil {
			walk(n.Additional.Schema)
		}
		walk(n.Items)
	}
	walk(f.Root)
	for _, d := range f.Defs {
		walk(d.Node)
	}
}

// collidingNameSets: definition names that map to one Go identifier.
var collidingNameSets = [][]string{
	{"zip-code", "zip_code", "ZipCode"},
	{"Level", "level", "level_"},
	{"a_b", "a.b", "A-B"},
	{"route hops", "RouteHops", "route_hops"},
}

// addCollidingDefs adds 2-3 definitions whose names map to the same Go
// identifier and whose schemas differ in nothing but the constraint family
// under test (the third, when present, may repeat the second exactly). Each is
// referenced from a required root property and one of them also as array
// items: every reference must be checked by its own definition's rules.
func addCollidingDefs(t *rapid.T, c *core.Ctx, f *model.File, family string) {
	if f.Root.Kind != model.KObject {
		return
	}
	ip := func(v int) *int { return &v }
	fp := func(v float64) *float64 { return &v }
	names := rapid.SampledFrom(collidingNameSets).Draw(t, "colnames")
	names = rapid.Permutation(names).Draw(t, "colorder")
	n := rapid.IntRange(2, 3).Draw(t, "coln")
	variant := func(i int) *model.Node {
		switch family {
		case "string":
			switch i {
			case 0:
				return &model.Node{Kind: model.KString, MinLength: ip(2), MaxLength: ip(4)}
			case 1:
				return &model.Node{Kind: model.KString, MinLength: ip(5), MaxLength: ip(7)}
			}
			return &model.Node{Kind: model.KString, MinLength: ip(2), MaxLength: ip(4), Pattern: "^[a-z]+$"}
		case "numeric":
			switch i {
			case 0:
				return &model.Node{Kind: model.KInteger, Minimum: fp(0), Maximum: fp(10)}
			case 1:
				return &model.Node{Kind: model.KInteger, Minimum: fp(20), Maximum: fp(30)}
			}
			return &model.Node{Kind: model.KInteger, Minimum: fp(0), Maximum: fp(10), MultipleOf: fp(5)}
		case "array":
			lim := [][2]int{{1, 2}, {3, 4}, {0, 1}}[i]
			return &model.Node{Kind: model.KObject, Props: []model.Prop{
				{Name: "nodes", Node: &model.Node{Kind: model.KArray, Items: &model.Node{Kind: model.KString}, MinItems: ip(lim[0]), MaxItems: ip(lim[1])}},
			}, Required: []string{"nodes"}}
		case "enum":
			vals := [][]string{{"low", "high"}, {"debug", "info", "warn"}, {"x", "y"}}[i]
			e := &model.Node{Kind: model.KEnum, EnumType: "string"}
			for _, v := range vals {
				e.EnumVals = append(e.EnumVals, jv.StrV(v))
			}
			return e
		default: // required
			req := [][]string{{"a"}, {"a", "b"}, {"b", "c"}}[i]
			return &model.Node{Kind: model.KObject, Props: []model.Prop{
				{Name: "a", Node: &model.Node{Kind: model.KString}}, {Name: "b", Node: &model.Node{Kind: model.KInteger}}, {Name: "c", Node: &model.Node{Kind: model.KBoolean}},
			}, Required: req}
		}
	}
	third := rapid.SampledFrom([]int{1, 1, 2}).Draw(t, "colthird") // the third usually repeats the second
	for i := 0; i < n; i++ {
		vi := i
		if i == 2 {
			vi = third
		}
		def := variant(vi)
		f.Defs = append(f.Defs, model.Def{Name: names[i], Node: def})
		ref := func() *model.Node { return &model.Node{Kind: model.KRef, Ref: "#/$defs/" + names[i], Target: def} }
		pn := fmt.Sprintf("zcol%d", i)
		f.Root.Props = append(f.Root.Props, model.Prop{Name: pn, Node: ref()})
		f.Root.Required = append(f.Root.Required, pn)
		if i == n-1 {
			f.Root.Props = append(f.Root.Props, model.Prop{Name: "zcolitems", Node: &model.Node{Kind: model.KArray, Items: ref(), MinItems: ip(1)}})
			f.Root.Required = append(f.Root.Required, "zcolitems")
		}
	}
	c.Count(fmt.Sprintf("shape.colliding_defs.%s.%d", family, n))
}

// countShapes tallies which schema features and options a run case carries
// (evidence: the distribution the generator actually produced).
func countShapes(c *core.Ctx, f *model.File, cfg gen.Config) {
	seen := map[string]bool{}
	visit := func(n *model.Node) {
		seen["kind."+n.Kind.String()] = true
		if n.Nullable {
			seen["nullable."+n.Kind.String()] = true
		}
		if n.Format != "" {
			seen["format."+n.Format] = true
		}
		if n.Default != nil {
			seen["default."+n.Kind.String()] = true
		}
		if n.Additional != nil {
			switch {
			case n.Additional.False:
				seen["additional.false"] = true
			case n.Additional.Schema != nil && n.Additional.Schema.Kind == model.KAny:
				seen["additional.untyped"] = true
			case n.Additional.Schema != nil:
				seen["additional."+n.Additional.Schema.Kind.String()] = true
			}
		}
		if n.Kind == model.KArray && n.Items != nil && n.Items.Kind == model.KArray {
			seen["array.nested"] = true
		}
		if (n.Kind == model.KAllOf || n.Kind == model.KAnyOf) && len(n.Branches) > 0 {
			seen[fmt.Sprintf("%s.%d_branches", n.Kind, len(n.Branches))] = true
		}
	}
	model.Walk(f.Root, visit)
	for _, d := range f.Defs {
		model.Walk(d.Node, visit)
		seen["definition."+d.Node.Kind.String()] = true
	}
	for k := range seen {
		c.Count("schema." + k)
	}
	for _, a := range cfg.Args() {
		if strings.HasPrefix(a, "--") {
			c.Count("option." + a)
		}
	}
}
