package props

import (
	"encoding/json"
	"fmt"
	"os"
	"path/filepath"
	"sort"
	"strings"
	"testing"

	"pgregory.net/rapid"

	"verif/harness/batch"
	"verif/harness/core"
	"verif/harness/docs"
	"verif/harness/gen"
	"verif/harness/goast"
	"verif/harness/model"
	"verif/harness/sgen"
)

func TestMain(m *testing.M) {
	code := m.Run()
	batch.Cleanup()
	os.Exit(code)
}

// caseOf renders model files into a tool invocation.
func caseOf(cfg gen.Config, inputs []string, files ...*model.File) *gen.Case {
	c := &gen.Case{Config: cfg, Inputs: inputs}
	for _, f := range files {
		c.Files = append(c.Files, gen.FileText{RelPath: f.RelPath, Text: string(f.Bytes())})
	}
	return c
}

// packagesOf groups the sources of a run into Go packages: files in the same
// directory with the same package clause form one package. The import path of a
// mapped package is its configured package name when that is a path, otherwise
// a synthetic one.
func packagesOf(c *gen.Case, res *gen.Result) []goast.Pkg {
	pkgOfFile := map[string]string{}
	for _, m := range c.Config.Mappings {
		if m.Output != "" && m.Package != "" {
			pkgOfFile[m.Output] = m.Package
		}
	}
	byPkg := map[string]*goast.Pkg{}
	for _, name := range res.SortedNames() {
		ip := pkgOfFile[name]
		if ip == "" {
			ip = c.Config.DefaultPackage
		}
		if ip == "" {
			ip = "verifpkg"
		}
		p, ok := byPkg[ip]
		if !ok {
			p = &goast.Pkg{ImportPath: ip, Files: map[string]string{}}
			byPkg[ip] = p
		}
		p.Files[name] = res.Sources[name]
	}
	keys := make([]string, 0, len(byPkg))
	for k := range byPkg {
		keys = append(keys, k)
	}
	sort.Strings(keys)
	out := make([]goast.Pkg, 0, len(keys))
	for _, k := range keys {
		out = append(out, *byPkg[k])
	}
	return out
}

func describeCase(c *gen.Case) map[string]any {
	files := map[string]string{}
	for _, f := range c.Files {
		files[f.RelPath] = core.Clip(f.Text, 1500)
	}
	return map[string]any{"files": files, "args": strings.Join(append(c.Config.Args(), c.Inputs...), " ")}
}

func baseConfig() gen.Config {
	return gen.Config{DefaultPackage: "verifpkg", DefaultOutput: "-"}
}

// drawOptions draws a random option combination (C01/C12/C16 full mix).
func drawOptions(t *rapid.T) gen.Config {
	cfg := baseConfig()
	cfg.ExtraImports = rapid.Bool().Draw(t, "extraImports")
	cfg.OnlyModels = rapid.IntRange(0, 4).Draw(t, "onlyModels") == 0
	cfg.MinSizedInts = rapid.Bool().Draw(t, "minSizedInts")
	cfg.StructNameFromTitle = rapid.Bool().Draw(t, "nameFromTitle")
	switch rapid.IntRange(0, 4).Draw(t, "tagsel") {
	case 0:
		cfg.Tags = []string{"json"}
	case 1:
		cfg.Tags = []string{"json", "yaml"}
	case 2:
		cfg.Tags = []string{"json", "toml", "xml"}
	case 3:
		cfg.Tags = []string{"yaml", "mapstructure", "json"}
	}
	if rapid.Bool().Draw(t, "hascaps") {
		cfg.Capitalizations = rapid.SliceOfN(rapid.SampledFrom([]string{"ID", "URL", "API", "Ab", "aB", "HTTP", "Id"}), 1, 3).Draw(t, "caps")
	}
	return cfg
}

func fullMixProfile(c *core.Ctx) *sgen.Profile {
	return &sgen.Profile{
		MaxDepth: 3, MinProps: 1, MaxProps: 8, MaxDefs: 4, ArrayDepth: 3,
		WString: 5, WInteger: 4, WNumber: 4, WBoolean: 2, WObject: 4, WArray: 4, WEnum: 3, WRef: 4, WAny: 1, WNull: 1, WAllOf: 1, WAnyOf: 1, WMap: 1,
		PConstraint: 0.45, PNullable: 0.2, PRequired: 0.4, PDefault: 0.2, PFormat: 0.15, PDesc: 0.3, PAdditional: 0.15,
		HostileText: true, InlineItemConstraints: true, MixedEnums: true,
		Avoid: c.Avoid, Excluded: c.ExcludedMap(), Sat: docs.Satisfiable,
	}
}

// wrappedEnum reports whether the tool represents the enum as a struct
// wrapper (mixed value types or null members).
func wrappedEnum(n *model.Node) bool {
	if n.Kind != model.KEnum {
		return false
	}
	if n.EnumType == "null" {
		return true
	}
	if n.EnumType != "" {
		return false
	}
	kinds := map[string]bool{}
	for _, v := range n.EnumVals {
		kinds[v.K.String()] = true
	}
	return len(kinds) > 1 || kinds["null"]
}

// defaultAllowed applies the known-finding exclusion switches about default
// values (DESIGN.md Appendix A7) to a property schema.
func defaultAllowed(c *core.Ctx, n *model.Node) bool {
	ex := c.ExcludedMap()
	no := func(sw string) bool {
		if c.Avoid(sw) {
			ex[sw]++
			return true
		}
		return false
	}
	if n.Nullable && no("defaults.on_nullable") {
		return false
	}
	rn := n.Resolve()
	if rn == nil {
		return false
	}
	switch rn.Kind {
	case model.KString:
		if rn.Format != "" && no("defaults.on_format") {
			return false
		}
	case model.KEnum:
		if wrappedEnum(rn) && no("defaults.on_wrapped_enum") {
			return false
		}
	case model.KObject, model.KAllOf, model.KAnyOf:
		if no("defaults.on_object") {
			return false
		}
	case model.KAny:
		if no("defaults.on_untyped") {
			return false
		}
	case model.KArray:
		it := rn.Items
		if it != nil {
			if r := it.Resolve(); r != nil && r.Kind == model.KArray && no("defaults.nested_arrays") {
				return false
			}
		}
		for it != nil {
			r := it.Resolve()
			if r == nil {
				return false
			}
			if r.Kind == model.KArray {
				it = r.Items
				continue
			}
			return defaultAllowed(c, r)
		}
	}
	return true
}

func tmpDir(t testing.TB, prefix string) string {
	d, err := os.MkdirTemp("", prefix)
	if err != nil {
		t.Fatal(err)
	}
	return d
}

func must(err error) {
	if err != nil {
		panic(err)
	}
}

var _ = filepath.Join
var _ = fmt.Sprintf

func jsonMarshal(v any) ([]byte, error)   { return json.Marshal(v) }
func jsonUnmarshal(b []byte, v any) error { return json.Unmarshal(b, v) }
