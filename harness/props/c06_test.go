package props

import (
	"strings"
	"testing"

	"pgregory.net/rapid"

	"verif/harness/core"
	"verif/harness/docs"
	"verif/harness/jv"
	"verif/harness/model"
	"verif/harness/sgen"
)

func docOpts(c *core.Ctx) *docs.Opts {
	docs.ExpectUntypedAdditional = !c.Avoid("addprops.untyped_collected_only_with_unmarshaler")
	return &docs.Opts{
		ByteSafe:         func() bool { return c.Avoid("strings.multibyte_where_bytes_differ") },
		NoNullObjects:    func() bool { return c.Avoid("nulls.nullable_object_with_properties") },
		SmallAddlNumbers: func() bool { return c.Avoid("addprops.int_beyond_2pow53") },
		Excluded:         c.ExcludedMap(),
	}
}

func stringProfile(c *core.Ctx) *sgen.Profile {
	return &sgen.Profile{
		MaxDepth: 2, MinProps: 3, MaxProps: 7, MinDefs: 1, MaxDefs: 3, ArrayDepth: 1,
		UnmappedFormats: true,
		WString:         10, WRef: 5, WArray: 2, WObject: 1, WInteger: 1,
		DefWeights:  map[string]int{"string": 5, "object": 1},
		PConstraint: 0.6, PNullable: 0.3, PRequired: 0.5,
		Avoid: c.Avoid, Excluded: c.ExcludedMap(), Sat: docs.Satisfiable,
	}
}

func TestC06(t *testing.T) {
	c := core.New(t, "C06")
	defer c.Finish()
	c.Rule("programs from the string profile (minLength/maxLength/pattern in all presence combinations x required/optional/nullable/named definition, referenced from properties and array items); per program valid documents with lengths at min/max/between (ASCII and 1-4 byte runes) and single-fault mutants: one rune short, one rune long, pattern broken with the length kept in range; oracle = rune count in range AND pattern match; non-trivial = boundary-length or non-matching string at an optional/nullable/named position, or any valid document; distinct by sha256(schema,args,document)")
	c.Assume("R4 exact keys", "R6 curated patterns identical in ECMA-262 and RE2", "reference oracle section 1.4")
	eval := runReplayEval(stdJudge)
	if c.RunReplay(eval) {
		return
	}
	c.Regressions(eval)
	prof := stringProfile(c)
	o := docOpts(c)
	plan := &docPlan{NValid: 4, Kinds: map[string]bool{"string": true},
		NTMutant: func(m *docs.Mutant) bool {
			return m.Pos.ViaRef || m.Pos.InArray > 0 || (m.Pos.Orig != nil && m.Pos.Orig.Nullable) || (m.Pos.Parent != nil && !m.Pos.Parent.IsRequired(m.Pos.Key))
		},
		NTValid: func(v jv.V) bool { return true },
	}
	runProperty(c, "run", c.N(240, 6000), 0, func(rt *rapid.T) *RunCase {
		f := prof.File(rt, "prog.json")
		if rapid.IntRange(0, 3).Draw(rt, "collidingdefs") == 0 {
			addCollidingDefs(rt, c, f, "string")
		}
		addOptionalDefaults(rt, c, f, 0.25, o)
		var scen []string
		if rapid.IntRange(0, 3).Draw(rt, "mergeoverlay") == 0 {
			scen = addMergeOverlayScenario(rt, c, f, "string")
		}
		cfg := baseConfig()
		cs := caseOf(cfg, []string{f.RelPath}, f)
		countShapes(c, f, cs.Config)
		jobs := buildJobs(rt, c, f.Root, progRoot, plan, o, cs)
		if len(scen) > 0 {
			// the overlay list itself is C11's business: drop the documents that carry it, judge the
			// definition used on its own
			var kept []core.Job
			for _, j := range jobs {
				if !strings.Contains(j.Doc, `"astrict"`) && !strings.Contains(j.Doc, `"zzstrict"`) {
					kept = append(kept, j)
				}
			}
			jobs = append(kept, scenarioOnlyJobs(rt, c, f.Root, scen, map[string]bool{"string": true, "required": true}, o)...)
		}
		rc := &RunCase{Case: cs, Jobs: jobs, Model: modelIfSingle(cs, f)}
		c.Sample(sampleOf(cs, jobs))
		countStringShapes(c, f)
		return rc
	}, stdJudge)
}

func countStringShapes(c *core.Ctx, f *model.File) {
	visit := func(n *model.Node) {
		if n.Kind != model.KString {
			return
		}
		k := "shape."
		if n.MinLength != nil {
			k += "min"
		}
		if n.MaxLength != nil {
			k += "max"
		}
		if n.Pattern != "" {
			k += "pat"
		}
		if n.Nullable {
			k += ".nullable"
		}
		c.Count(k)
	}
	model.Walk(f.Root, visit)
	for _, d := range f.Defs {
		model.Walk(d.Node, visit)
	}
}
