package props

import (
	"strings"

	"verif/harness/batch"
	"verif/harness/core"
	"verif/harness/docs"
	"verif/harness/gen"
	"verif/harness/jv"
	"verif/harness/model"
	"verif/harness/oracle"
)

// reduceRunFailure is the model-level reducer for E-run failures (section 1.5):
// greedy removal of properties (together with their mention in `required` and
// in the document) and of definitions; every candidate stays inside the
// supported set by construction, its expectation is recomputed by the oracle
// and it is kept only when the single-program re-evaluation still fails with
// the same failure class. Budget = number of single-program builds.
func reduceRunFailure(rc *RunCase, j *core.Job, judge Judge, wantClass string, budget int) (*RunCase, *core.Job, int) {
	if rc.Model == nil || j.DocB64 || len(rc.Case.Files) != 1 {
		return rc, j, 0
	}
	doc, err := jv.Parse([]byte(j.Doc))
	if err != nil || doc.K != jv.Obj {
		return rc, j, 0
	}
	cur := cloneFile(rc.Model)
	curDoc := doc
	curJob := *j
	evals := 0
	stillFails := func(f *model.File, d jv.V) (*core.Job, bool) {
		nj := curJob
		nj.Doc = string(d.Marshal())
		viol := oracle.Validate(f.Root, d)
		switch j.Expect {
		case "accept":
			if len(viol) != 0 {
				return nil, false
			}
			if len(j.ExpectVal) > 0 {
				nj.ExpectVal = expJSON(docs.Expect(f.Root, d))
			}
		case "reject":
			if len(viol) == 0 {
				return nil, false
			}
			// the same rule at the same place must still be what is wrong
			want := j.Rule
			found := false
			for _, v := range viol {
				if strings.HasPrefix(want, v.Rule) && strings.HasSuffix(want, "@"+v.Path) {
					found = true
				}
			}
			if !found && strings.Contains(want, "@") {
				return nil, false
			}
		default:
			return nil, false
		}
		cs := caseOf(rc.Case.Config, []string{f.RelPath}, f)
		cand := &RunCase{Case: cs, Jobs: []core.Job{nj}}
		failed := false
		evals++
		_, err := evalRunCases(nil, []*RunCase{cand}, judge, func(_ *RunCase, _ *core.Job, _ *batch.Result, key, _ string) {
			if keyClass(key) == wantClass {
				failed = true
			}
		})
		if err != nil || cand.GenErr != "" {
			return nil, false
		}
		return &nj, failed
	}
	progress := true
	for progress && evals < budget {
		progress = false
		// properties of the root and of root-level object properties (not below arrays)
		type target struct {
			obj  *model.Node
			path []string
		}
		targets := []target{{cur.Root, nil}}
		for _, p := range cur.Root.Props {
			if p.Node.Kind == model.KObject && len(p.Node.Props) > 0 {
				targets = append(targets, target{p.Node, []string{p.Name}})
			}
		}
		for _, tg := range targets {
			for i := len(tg.obj.Props) - 1; i >= 0 && evals < budget; i-- {
				name := tg.obj.Props[i].Name
				if onFaultPath(j.Rule, append(append([]string{}, tg.path...), name)) {
					continue
				}
				saveProps, saveReq := tg.obj.Props, tg.obj.Required
				tg.obj.Props = append(append([]model.Prop{}, saveProps[:i]...), saveProps[i+1:]...)
				var req []string
				for _, r := range saveReq {
					if r != name {
						req = append(req, r)
					}
				}
				tg.obj.Required = req
				if len(tg.obj.Props) == 0 {
					tg.obj.Props, tg.obj.Required = saveProps, saveReq
					continue
				}
				nd := delAt(curDoc, tg.path, name)
				if nj, ok := stillFails(cur, nd); ok {
					curDoc, curJob, progress = nd, *nj, true
				} else {
					tg.obj.Props, tg.obj.Required = saveProps, saveReq
				}
			}
		}
		// unreferenced definitions
		for i := len(cur.Defs) - 1; i >= 0 && evals < budget; i-- {
			if referenced(cur, cur.Defs[i].Name) {
				continue
			}
			save := cur.Defs
			cur.Defs = append(append([]model.Def{}, save[:i]...), save[i+1:]...)
			if nj, ok := stillFails(cur, curDoc); ok {
				curJob, progress = *nj, true
			} else {
				cur.Defs = save
			}
		}
	}
	if evals == 0 {
		return rc, j, 0
	}
	out := &RunCase{Case: caseOf(rc.Case.Config, []string{cur.RelPath}, cur), Jobs: []core.Job{curJob}, Model: cur}
	return out, &curJob, evals
}

func onFaultPath(rule string, path []string) bool {
	i := strings.Index(rule, "@")
	if i < 0 {
		return false
	}
	segs := strings.Split(strings.TrimPrefix(rule[i+1:], "/"), "/")
	for k, p := range path {
		if k >= len(segs) || segs[k] != p {
			return false
		}
	}
	return true
}

func delAt(doc jv.V, path []string, name string) jv.V {
	if len(path) == 0 {
		if doc.K != jv.Obj {
			return doc
		}
		return doc.Del(name)
	}
	if doc.K != jv.Obj {
		return doc
	}
	sub, ok := doc.Get(path[0])
	if !ok {
		return doc
	}
	return doc.Set(path[0], delAt(sub, path[1:], name))
}

func referenced(f *model.File, def string) bool {
	found := false
	visit := func(n *model.Node) {
		if n.Kind == model.KRef && strings.HasSuffix(n.Ref, "/"+def) {
			found = true
		}
	}
	model.Walk(f.Root, visit)
	for _, d := range f.Defs {
		model.Walk(d.Node, visit)
	}
	return found
}

// modelIfSingle returns the model when the case consists of that one file.
func modelIfSingle(cs *gen.Case, f *model.File) *model.File {
	if len(cs.Files) == 1 {
		return f
	}
	return nil
}

// cloneFile deep-copies a file model keeping reference targets consistent.
func cloneFile(f *model.File) *model.File {
	out := *f
	holder := &model.Node{Kind: model.KObject}
	holder.Props = append(holder.Props, model.Prop{Name: "$root", Node: f.Root})
	for _, d := range f.Defs {
		holder.Props = append(holder.Props, model.Prop{Name: d.Name, Node: d.Node})
	}
	ch := model.Clone(holder)
	out.Root = ch.Props[0].Node
	out.Defs = nil
	for i, d := range f.Defs {
		out.Defs = append(out.Defs, model.Def{Name: d.Name, Node: ch.Props[i+1].Node})
	}
	return &out
}

// reduceStaticCase is the text-level reducer for generator-only failures
// (E-static / E-cli checks): members of objects and elements of arrays of the
// first JSON input file are deleted greedily, deepest-last, while
// stillFails(candidate) holds (the caller compares the failure class). Every
// candidate is a syntactically valid JSON document; whether it is still a
// schema the tool accepts is decided by the evaluation itself (a rejected
// candidate does not "still fail"). Budget = number of evaluations.
func reduceStaticCase(cs *gen.Case, stillFails func(*gen.Case) bool, budget int) (*gen.Case, int) {
	if len(cs.Files) == 0 || !strings.HasSuffix(cs.Files[0].RelPath, ".json") {
		return cs, 0
	}
	root, err := jv.Parse([]byte(cs.Files[0].Text))
	if err != nil {
		return cs, 0
	}
	evals := 0
	with := func(v jv.V) *gen.Case {
		nc := *cs
		nc.Files = append([]gen.FileText{}, cs.Files...)
		nc.Files[0].Text = string(v.Indent())
		return &nc
	}
	try := func(v jv.V) bool {
		if evals >= budget {
			return false
		}
		evals++
		return stillFails(with(v))
	}
	// path-addressed edits on an immutable tree
	type step struct {
		key string
		idx int
	}
	var get func(v jv.V, p []step) jv.V
	get = func(v jv.V, p []step) jv.V {
		for _, s := range p {
			if v.K == jv.Obj {
				v, _ = v.Get(s.key)
			} else {
				v = v.A[s.idx]
			}
		}
		return v
	}
	var put func(v jv.V, p []step, nv jv.V) jv.V
	put = func(v jv.V, p []step, nv jv.V) jv.V {
		if len(p) == 0 {
			return nv
		}
		if v.K == jv.Obj {
			c, _ := v.Get(p[0].key)
			return v.Clone().Set(p[0].key, put(c, p[1:], nv))
		}
		a := jv.V{K: jv.Arr, A: append([]jv.V{}, v.A...)}
		a.A[p[0].idx] = put(v.A[p[0].idx], p[1:], nv)
		return a
	}
	for pass := 0; pass < 6 && evals < budget; pass++ {
		progress := false
		var visit func(p []step)
		visit = func(p []step) {
			cur := get(root, p)
			switch cur.K {
			case jv.Obj:
				for _, k := range cur.SortedKeys() {
					now := get(root, p)
					if !now.Has(k) || (len(p) == 0 && k == "$id") || k == "$ref" || (k == "type" && now.Has("properties")) {
						// a reference is removed together with its holder, never turned into {}
						continue
					}
					cand := put(root, p, now.Clone().Del(k))
					if try(cand) {
						root = cand
						progress = true
						continue
					}
					visit(append(append([]step{}, p...), step{key: k}))
				}
			case jv.Arr:
				for i := len(cur.A) - 1; i >= 0; i-- {
					now := get(root, p)
					if i >= len(now.A) {
						continue
					}
					a := jv.V{K: jv.Arr, A: append(append([]jv.V{}, now.A[:i]...), now.A[i+1:]...)}
					cand := put(root, p, a)
					if try(cand) {
						root = cand
						progress = true
						continue
					}
					visit(append(append([]step{}, p...), step{idx: i}))
				}
			}
		}
		visit(nil)
		if !progress {
			break
		}
	}
	// option flags are dropped one at a time as well
	out := with(root)
	for _, drop := range []func(*gen.Config){
		func(c *gen.Config) { c.ExtraImports = false }, func(c *gen.Config) { c.OnlyModels = false },
		func(c *gen.Config) { c.MinSizedInts = false }, func(c *gen.Config) { c.StructNameFromTitle = false },
		func(c *gen.Config) { c.Tags = nil }, func(c *gen.Config) { c.Capitalizations = nil },
	} {
		if evals >= budget {
			break
		}
		nc := *out
		drop(&nc.Config)
		evals++
		if stillFails(&nc) {
			out = &nc
		}
	}
	return out, evals
}
