package props

import (
	"strings"

	"verif/harness/batch"
	"verif/harness/core"
	"verif/harness/docs"
	"verif/harness/gen"
	"verif/harness/jv"
	"verif/harness/model"
	"verif/harness/oracle"
)

// reduceRunFailure is the model-level reducer for E-run failures (section 1.5):
// greedy removal of properties (together with their mention in `required` and
// in the document) and of definitions; every candidate stays inside the
// supported set by construction, its expectation is recomputed by the oracle
// and it is kept only when the single-program re-evaluation still fails with
// the same failure class. Budget = number of single-program builds.
func reduceRunFailure(rc *RunCase, j *core.Job, judge Judge, wantClass string, budget int) (*RunCase, *core.Job, int) {
	if rc.Model == nil || j.DocB64 || len(rc.Case.Files) != 1 {
		return rc, j, 0
	}
	doc, err := jv.Parse([]byte(j.Doc))
	if err != nil || doc.K != jv.Obj {
		return rc, j, 0
	}
	cur := cloneFile(rc.Model)
	curDoc := doc
	curJob := *j
	evals := 0
	stillFails := func(f *model.File, d jv.V) (*core.Job, bool) {
		nj := curJob
		nj.Doc = string(d.Marshal())
		viol := oracle.Validate(f.Root, d)
		switch j.Expect {
		case "accept":
			if len(viol) != 0 {
				return nil, false
			}
			if len(j.ExpectVal) > 0 {
				nj.ExpectVal = expJSON(docs.Expect(f.Root, d))
			}
		case "reject":
			if len(viol) == 0 {
				return nil, false
			}
			// the same rule at the same place must still be what is wrong
			want := j.Rule
			found := false
			for _, v := range viol {
				if strings.HasPrefix(want, v.Rule) && strings.HasSuffix(want, "@"+v.Path) {
					found = true
				}
			}
			if !found && strings.Contains(want, "@") {
				return nil, false
			}
		default:
			return nil, false
		}
		cs := caseOf(rc.Case.Config, []string{f.RelPath}, f)
		cand := &RunCase{Case: cs, Jobs: []core.Job{nj}}
		failed := false
		evals++
		_, err := evalRunCases(nil, []*RunCase{cand}, judge, func(_ *RunCase, _ *core.Job, _ *batch.Result, key, _ string) {
			if keyClass(key) == wantClass {
				failed = true
			}
		})
		if err != nil || cand.GenErr != "" {
			return nil, false
		}
		return &nj, failed
	}
	progress := true
	for progress && evals < budget {
		progress = false
		// properties of the root and of root-level object properties (not below arrays)
		type target struct {
			obj  *model.Node
			path []string
		}
		targets := []target{{cur.Root, nil}}
		for _, p := range cur.Root.Props {
			if p.Node.Kind == model.KObject && len(p.Node.Props) > 0 {
				targets = append(targets, target{p.Node, []string{p.Name}})
			}
		}
		for _, tg := range targets {
			for i := len(tg.obj.Props) - 1; i >= 0 && evals < budget; i-- {
				name := tg.obj.Props[i].Name
				if onFaultPath(j.Rule, append(append([]string{}, tg.path...), name)) {
					continue
				}
				saveProps, saveReq := tg.obj.Props, tg.obj.Required
				tg.obj.Props = append(append([]model.Prop{}, saveProps[:i]...), saveProps[i+1:]...)
				var req []string
				for _, r := range saveReq {
					if r != name {
						req = append(req, r)
					}
				}
				tg.obj.Required = req
				if len(tg.obj.Props) == 0 {
					tg.obj.Props, tg.obj.Required = saveProps, saveReq
					continue
				}
				nd := delAt(curDoc, tg.path, name)
				if nj, ok := stillFails(cur, nd); ok {
					curDoc, curJob, progress = nd, *nj, true
				} else {
					tg.obj.Props, tg.obj.Required = saveProps, saveReq
				}
			}
		}
		// unreferenced definitions
		for i := len(cur.Defs) - 1; i >= 0 && evals < budget; i-- {
			if referenced(cur, cur.Defs[i].Name) {
				continue
			}
			save := cur.Defs
			cur.Defs = append(append([]model.Def{}, save[:i]...), save[i+1:]...)
			if nj, ok := stillFails(cur, curDoc); ok {
				curJob, progress = *nj, true
			} else {
				cur.Defs = save
			}
		}
	}
	if evals == 0 {
		return rc, j, 0
	}
	out := &RunCase{Case: caseOf(rc.Case.Config, []string{cur.RelPath}, cur), Jobs: []core.Job{curJob}, Model: cur}
	return out, &curJob, evals
}

func onFaultPath(rule string, path []string) bool {
	i := strings.Index(rule, "@")
	if i < 0 {
		return false
	}
	segs := strings.Split(strings.TrimPrefix(rule[i+1:], "/"), "/")
	for k, p := range path {
		if k >= len(segs) || segs[k] != p {
			return false
		}
	}
	return true
}

func delAt(doc jv.V, path []string, name string) jv.V {
	if len(path) == 0 {
		if doc.K != jv.Obj {
			return doc
		}
		return doc.Del(name)
	}
	if doc.K != jv.Obj {
		return doc
	}
	sub, ok := doc.Get(path[0])
	if !ok {
		return doc
	}
	return doc.Set(path[0], delAt(sub, path[1:], name))
}

func referenced(f *model.File, def string) bool {
	found := false
	visit := func(n *model.Node) {
		if n.Kind == model.KRef && strings.HasSuffix(n.Ref, "/"+def) {
			found = true
		}
	}
	model.Walk(f.Root, visit)
	for _, d := range f.Defs {
		model.Walk(d.Node, visit)
	}
	return found
}

// modelIfSingle returns the model when the case consists of that one file.
func modelIfSingle(cs *gen.Case, f *model.File) *model.File {
	if len(cs.Files) == 1 {
		return f
	}
	return nil
}

// cloneFile deep-copies a file model keeping reference targets consistent.
func cloneFile(f *model.File) *model.File {
	out := *f
	holder := &model.Node{Kind: model.KObject}
	holder.Props = append(holder.Props, model.Prop{Name: "$root", Node: f.Root})
	for _, d := range f.Defs {
		holder.Props = append(holder.Props, model.Prop{Name: d.Name, Node: d.Node})
	}
	ch := model.Clone(holder)
	out.Root = ch.Props[0].Node
	out.Defs = nil
	for i, d := range f.Defs {
		out.Defs = append(out.Defs, model.Def{Name: d.Name, Node: ch.Props[i+1].Node})
	}
	return &out
}
