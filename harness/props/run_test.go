package props

import (
	"encoding/json"
	"fmt"
	"sort"
	"strings"

	"verif/harness/batch"
	"verif/harness/cmpdump"
	"verif/harness/core"
	"verif/harness/docs"
	"verif/harness/gen"
	"verif/harness/jv"
	"verif/harness/model"
)

// RunCase is one generated program with its jobs (E-run).
type RunCase struct {
	Case  *gen.Case
	Jobs  []core.Job
	Class string
	Model *model.File // set for single-file cases: enables the model-level reducer
	// filled by evaluation
	GenErr string
}

// Judge decides one job; key "" = holds. key identifies the failure kind for
// de-duplication.
type Judge func(j *core.Job, r *batch.Result) (key, msg string)

func expOf(j *core.Job) *docs.Exp {
	if len(j.ExpectVal) == 0 {
		return nil
	}
	var e docs.Exp
	if err := json.Unmarshal(j.ExpectVal, &e); err != nil {
		return nil
	}
	return &e
}

func expJSON(e *docs.Exp) json.RawMessage {
	b, _ := json.Marshal(e)
	return b
}

// checkRemarshal: every declared, non-empty input value must reappear equal in
// the re-marshalled JSON (one-directional, C02).
func checkRemarshal(e *docs.Exp, in, out jv.V, path string, bad *[]string) {
	if e == nil || len(*bad) > 5 {
		return
	}
	switch e.K {
	case "obj":
		if in.K != jv.Obj {
			return
		}
		if out.K != jv.Obj {
			*bad = append(*bad, fmt.Sprintf("%s: re-marshalled value is not an object: %s", path, core.Clip(out.String(), 100)))
			return
		}
		keys := make([]string, 0, len(e.Props))
		for k := range e.Props {
			keys = append(keys, k)
		}
		sort.Strings(keys)
		for _, k := range keys {
			iv, ok := in.Get(k)
			if !ok || emptyJSON(iv) {
				continue
			}
			ov, ok := out.Get(k)
			if !ok {
				*bad = append(*bad, fmt.Sprintf("%s/%s: declared non-empty value missing after marshal", path, k))
				continue
			}
			checkRemarshal(e.Props[k], iv, ov, path+"/"+k, bad)
		}
	case "arr":
		if in.K != jv.Arr || out.K != jv.Arr || len(in.A) != len(out.A) {
			*bad = append(*bad, fmt.Sprintf("%s: array differs after marshal: %s vs %s", path, core.Clip(in.String(), 80), core.Clip(out.String(), 80)))
			return
		}
		for i := range in.A {
			if i < len(e.Elems) {
				checkRemarshal(e.Elems[i], in.A[i], out.A[i], fmt.Sprintf("%s/%d", path, i), bad)
			}
		}
	case "fmt":
		if e.Fmt == "date-time" {
			return // compared by value through the dump (R5)
		}
		if !jv.Equal(in, out) {
			*bad = append(*bad, fmt.Sprintf("%s: value differs after marshal: %s vs %s", path, core.Clip(in.String(), 80), core.Clip(out.String(), 80)))
		}
	case "str", "int", "num", "bool", "any", "enum", "map":
		if !jv.Equal(in, out) {
			*bad = append(*bad, fmt.Sprintf("%s: value differs after marshal: %s vs %s", path, core.Clip(in.String(), 80), core.Clip(out.String(), 80)))
		}
	}
}

func emptyJSON(v jv.V) bool {
	switch v.K {
	case jv.Null:
		return true
	case jv.Bool:
		return !v.B
	case jv.Num:
		return jv.Rat(v.N).Sign() == 0
	case jv.Str:
		return v.S == ""
	case jv.Arr:
		return len(v.A) == 0
	case jv.Obj:
		return len(v.O) == 0
	}
	return false
}

// stdJudge is the verdict/value judge shared by the E-run checks.
func stdJudge(j *core.Job, r *batch.Result) (string, string) {
	if r.Skipped != "" {
		return "", ""
	}
	switch j.Expect {
	case "accept":
		if !r.Accepted() {
			return "accept-rejected:" + j.Label, fmt.Sprintf("valid document rejected (%s): %s", j.Label, r.ErrText())
		}
		if e := expOf(j); e != nil {
			d, err := jv.Parse(r.Dump)
			if err != nil {
				return "dump", "unparsable dump: " + err.Error()
			}
			if mm := cmpdump.Compare(e, d); len(mm) > 0 {
				return "value:" + j.Label, "decoded value differs (" + j.Label + "): " + strings.Join(mm, "; ")
			}
			if j.Remarshal {
				if r.Remarshal == nil {
					msg := "marshal failed"
					if r.RemarshalErr != nil {
						msg += ": " + *r.RemarshalErr
					}
					return "remarshal-err:" + j.Label, msg
				}
				in, err1 := jv.Parse([]byte(j.Doc))
				out, err2 := jv.Parse([]byte(*r.Remarshal))
				if err1 != nil || err2 != nil {
					return "remarshal-parse", "cannot parse marshal output: " + core.Clip(*r.Remarshal, 200)
				}
				var bad []string
				checkRemarshal(e, in, out, "", &bad)
				if len(bad) > 0 {
					return "remarshal:" + j.Label, "marshal round trip loses a declared value: " + strings.Join(bad, "; ")
				}
			}
		}
	case "reject":
		if r.Panic != nil || r.Crash != "" {
			return "reject-panic:" + j.Label, fmt.Sprintf("invalid document (%s, rule %s) made the unmarshaler panic: %s", j.Label, j.Rule, r.ErrText())
		}
		if r.Err == nil {
			return "reject-accepted:" + j.Label, fmt.Sprintf("invalid document accepted (%s, rule %s)", j.Label, j.Rule)
		}
	}
	return "", ""
}

type runStats struct {
	genErr, buildErr, skipped, jobs int
}

// evalRunCases generates, batch-builds and runs the cases and reports every
// judged failure through onFail (which may stop caring after enough).
func evalRunCases(c *core.Ctx, cases []*RunCase, judge Judge, onFail func(rc *RunCase, j *core.Job, r *batch.Result, key, msg string)) (*runStats, error) {
	st := &runStats{}
	var progs []*batch.Program
	for i, rc := range cases {
		res := gen.Run(rc.Case)
		if !res.OK() {
			rc.GenErr = res.Err + res.Panic
			st.genErr++
			if c != nil {
				c.Count("gen.rejected")
			}
			continue
		}
		src, ok := res.Sources["-"]
		if !ok {
			for _, n := range res.SortedNames() {
				src = res.Sources[n]
				break
			}
		}
		p := batch.SinglePkg(fmt.Sprintf("p%05d", i), src)
		for k := range rc.Jobs {
			j := rc.Jobs[k]
			j.ID = fmt.Sprintf("%s.%d", p.Name, k)
			p.Jobs = append(p.Jobs, j)
		}
		p.Tag = rc
		progs = append(progs, p)
	}
	results, bst, err := batch.Run(progs, 12)
	if c != nil && bst != nil {
		c.Extra("build_s", bst.BuildS)
		c.Extra("run_s", bst.RunS)
	}
	if err != nil {
		return st, err
	}
	for _, p := range progs {
		rc := p.Tag.(*RunCase)
		if p.BuildErr != "" {
			st.buildErr++
			rc.GenErr = p.BuildErr
			if c != nil {
				c.Count("build.failed")
				if c.Survey() {
					c.SurveyAdd("BUILD "+normMsg(p.BuildErr), p.BuildErr)
					c.SurveyReplay("BUILD "+normMsg(p.BuildErr), &core.Replay{Check: "run", Case: rc.Case, Observed: p.BuildErr})
				}
			}
			continue
		}
		for k := range p.Jobs {
			j := &p.Jobs[k]
			r, ok := results[j.ID]
			if !ok {
				return st, fmt.Errorf("no result for job %s", j.ID)
			}
			st.jobs++
			if r.Skipped != "" {
				st.skipped++
				if c != nil {
					c.Count("job.skipped")
				}
				continue
			}
			key, msg := judge(j, r)
			if key != "" {
				onFail(rc, j, r, key, msg)
			}
		}
	}
	return st, nil
}

// runReplayEval evaluates a replay made of one case and its jobs.
func runReplayEval(judge Judge) core.EvalFn {
	return func(r *core.Replay) (bool, string, error) {
		rc := &RunCase{Case: r.Case, Jobs: r.Jobs}
		var msgs []string
		st, err := evalRunCases(nil, []*RunCase{rc}, judge, func(_ *RunCase, j *core.Job, _ *batch.Result, key, msg string) {
			msgs = append(msgs, msg)
		})
		if err != nil {
			return false, "", err
		}
		if rc.GenErr != "" {
			return false, "program no longer generates/builds: " + rc.GenErr, nil
		}
		_ = st
		return len(msgs) > 0, strings.Join(msgs, "\n"), nil
	}
}

// keyClass abstracts a failure key for de-duplication of violations.
func keyClass(key string) string {
	if i := strings.IndexByte(key, '@'); i >= 0 {
		return key[:i]
	}
	return key
}
