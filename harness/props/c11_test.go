package props

import (
	"fmt"
	"sort"
	"strings"
	"testing"

	"pgregory.net/rapid"

	"verif/harness/core"
	"verif/harness/docs"
	"verif/harness/jv"
	"verif/harness/model"
	"verif/harness/oracle"
)

// c11Leaf draws a constrained primitive schema of the given kind index.
// c11NonZero: under an open finding stated constants on shared properties stay
// non-zero (a stated 'minimum: 0' is what the anyOf merge treats as empty).
var c11NonZero bool

func c11Leaf(t *rapid.T, kind int) *model.Node {
	switch kind {
	case 0:
		n := &model.Node{Kind: model.KInteger}
		if rapid.Bool().Draw(t, "hasmin") {
			lo := 0
			if c11NonZero {
				lo = 1
			}
			n.Minimum = model.FloatP(float64(rapid.IntRange(lo, 5).Draw(t, "min")))
		}
		if rapid.Bool().Draw(t, "hasmax") {
			n.Maximum = model.FloatP(float64(rapid.IntRange(5, 10).Draw(t, "max")))
		}
		return n
	case 1:
		n := &model.Node{Kind: model.KString}
		if rapid.Bool().Draw(t, "hasminlen") {
			n.MinLength = model.IntP(rapid.IntRange(1, 3).Draw(t, "minlen"))
		}
		if rapid.Bool().Draw(t, "hasmaxlen") {
			n.MaxLength = model.IntP(rapid.IntRange(3, 6).Draw(t, "maxlen"))
		}
		return n
	case 2:
		return &model.Node{Kind: model.KBoolean}
	}
	n := &model.Node{Kind: model.KNumber}
	if rapid.Bool().Draw(t, "hasnmin") {
		v := float64(rapid.IntRange(-4, 4).Draw(t, "nmin")) / 2
		if v == 0 && c11NonZero {
			v = 0.5
		}
		n.Minimum = model.FloatP(v)
	}
	return n
}

// c11Loosen returns a copy of n in which every stated limit is looser (or gone).
func c11Loosen(t *rapid.T, n *model.Node) *model.Node {
	c := *n
	d := float64(rapid.IntRange(1, 3).Draw(t, "loosenby"))
	drop := func(label string) bool { return rapid.IntRange(0, 3).Draw(t, label) == 0 }
	if n.Minimum != nil {
		if drop("dropmin") {
			c.Minimum = nil
		} else {
			v := *n.Minimum - d
			if v == 0 && c11NonZero {
				v = -1
			}
			c.Minimum = &v
		}
	}
	if n.Maximum != nil {
		if drop("dropmax") {
			c.Maximum = nil
		} else {
			v := *n.Maximum + d
			c.Maximum = &v
		}
	}
	if n.MinLength != nil {
		if v := *n.MinLength - 1; v <= 0 || drop("dropminlen") {
			c.MinLength = nil
		} else {
			c.MinLength = &v
		}
	}
	if n.MaxLength != nil {
		if drop("dropmaxlen") {
			c.MaxLength = nil
		} else {
			v := *n.MaxLength + int(d)
			c.MaxLength = &v
		}
	}
	return &c
}

// c11Complement returns a node of n's kind that states only limits n leaves
// unstated (minimum where n has none, maxLength where n has none, ...): the
// conjunction must enforce both branches' parts. ok=false when n states all.
func c11Complement(t *rapid.T, n *model.Node) (*model.Node, bool) {
	c := &model.Node{Kind: n.Kind}
	any := false
	switch n.Kind {
	case model.KInteger, model.KNumber:
		if n.Minimum == nil {
			hi := 5.0
			if n.Maximum != nil && *n.Maximum < hi {
				hi = *n.Maximum
			}
			v := float64(rapid.IntRange(1, int(hi)).Draw(t, "cmin"))
			c.Minimum, any = &v, true
		}
		if n.Maximum == nil && n.Kind == model.KInteger {
			lo := 5.0
			if n.Minimum != nil && *n.Minimum > lo {
				lo = *n.Minimum
			}
			v := float64(rapid.IntRange(int(lo), 10).Draw(t, "cmax"))
			c.Maximum, any = &v, true
		}
	case model.KString:
		if n.MinLength == nil {
			c.MinLength, any = model.IntP(rapid.IntRange(1, 3).Draw(t, "cminlen")), true
		}
		if n.MaxLength == nil {
			c.MaxLength, any = model.IntP(rapid.IntRange(3, 6).Draw(t, "cmaxlen")), true
		}
	}
	return c, any
}

// addCollidingAllOfLists: two object schemas that get the same Go type name
// (colev.ent and colev_ent -> <Root>ColevEnt) and are equal except inside an
// allOf list: the second list has one more branch, which requires a bounded
// "severity". Each position must enforce its own list.
func addCollidingAllOfLists(t *rapid.T, c *core.Ctx, f *model.File) []map[string]string {
	b1 := func() *model.Node {
		return &model.Node{Kind: model.KObject, Props: []model.Prop{{Name: "kind", Node: &model.Node{Kind: model.KString}}}, Required: []string{"kind"}}
	}
	b2 := func() *model.Node {
		return &model.Node{Kind: model.KObject, Props: []model.Prop{{Name: "source", Node: &model.Node{Kind: model.KString}}}}
	}
	b3 := &model.Node{Kind: model.KObject, Props: []model.Prop{{Name: "severity", Node: &model.Node{Kind: model.KInteger, Minimum: model.FloatP(1), Maximum: model.FloatP(5)}}}, Required: []string{"severity"}}
	ev := func(branches ...*model.Node) *model.Node {
		return &model.Node{Kind: model.KObject, Props: []model.Prop{
			{Name: "id", Node: &model.Node{Kind: model.KString}},
			{Name: "data", Node: &model.Node{Kind: model.KAllOf, Branches: branches}},
		}, Required: []string{"data"}}
	}
	short, long := ev(b1(), b2()), ev(b1(), b2(), b3)
	// which of the two is generated first (properties are visited in sorted order: "colev" < "colev_ent")
	inner, flat := short, long
	if rapid.Bool().Draw(t, "longfirst") {
		inner, flat = long, short
	}
	f.Root.Props = append(f.Root.Props,
		model.Prop{Name: "colev", Node: &model.Node{Kind: model.KObject, Props: []model.Prop{{Name: "ent", Node: inner}}, Required: []string{"ent"}}},
		model.Prop{Name: "colev_ent", Node: flat})
	c.Count("shape.colliding_types_differ_inside_allof")
	with, without, bad := `{"data":{"kind":"k","severity":3}}`, `{"data":{"kind":"k"}}`, `{"data":{"kind":"k","severity":9}}`
	wrap := func(s string) string { return `{"ent":` + s + `}` }
	return []map[string]string{
		{"colev": wrap(with)}, {"colev": wrap(without)}, {"colev": wrap(bad)},
		{"colev_ent": with}, {"colev_ent": without}, {"colev_ent": bad},
		{"colev": wrap(with), "colev_ent": with},
	}
}

type c11Case struct {
	file       *model.File
	comp       *model.Node
	branches   []*model.Node // resolved object nodes
	kind       model.Kind
	overlap    string
	second     *model.Node
	secondName string
}

func genC11(t *rapid.T, c *core.Ctx) *c11Case {
	kind := model.KAllOf
	if rapid.Bool().Draw(t, "anyof") {
		kind = model.KAnyOf
	}
	nb := rapid.IntRange(1, 4).Draw(t, "nbranches")
	pool := []string{"p0", "p1", "p2", "p3", "p4", "p5", "p6"}
	kindOf := map[string]int{}
	first := map[string]*model.Node{}
	firstIdx := map[string]int{} // the branch that declared the property first
	refBranch := map[int]bool{}  // branches given by reference to a definition
	f := &model.File{RelPath: "prog.json", ID: "https://example.com/prog"}
	comp := &model.Node{Kind: kind}
	cc := &c11Case{file: f, comp: comp, kind: kind, overlap: "disjoint"}
	diffAllowed := kind == model.KAnyOf || !c.Avoid("branches.same_property_different_constraints")
	c11NonZero = false
	if kind == model.KAnyOf && c.Avoid("branches.anyof_same_property_different_constraints") {
		// narrowed exclusion: different constraints are drawn, but never a zero-valued constant
		c11NonZero = true
		c.ExcludedMap()["branches.anyof_same_property_different_constraints"]++
	}
	for i := 0; i < nb; i++ {
		b := &model.Node{Kind: model.KObject}
		np := rapid.IntRange(1, 3).Draw(t, "bprops")
		names := rapid.Permutation(pool).Draw(t, "names")[:np]
		sort.Strings(names)
		for _, name := range names {
			var node *model.Node
			if prev, ok := first[name]; ok {
				zeroLimit := (prev.Minimum != nil && *prev.Minimum == 0) || (prev.Maximum != nil && *prev.Maximum == 0)
				// (a first-branch limit of 0 counts as unset for the merge: part of the same open finding)
				leaks := refBranch[firstIdx[name]] && c.Avoid("allof.merge_writes_into_shared_definition")
				if leaks {
					c.ExcludedMap()["allof.merge_writes_into_shared_definition"]++
				}
				if comp, ok := c11Complement(t, prev); ok && kind == model.KAllOf && !zeroLimit && !leaks && rapid.IntRange(0, 2).Draw(t, "complement") == 0 {
					// a later branch states what the first declarer leaves open (no keyword is stated twice,
					// so the open first-wins finding does not apply)
					node = comp
					cc.overlap = "complementary-later"
					// what has been stated so far, by any branch: a third branch complements that
					acc := *prev
					if comp.Minimum != nil {
						acc.Minimum = comp.Minimum
					}
					if comp.Maximum != nil {
						acc.Maximum = comp.Maximum
					}
					if comp.MinLength != nil {
						acc.MinLength = comp.MinLength
					}
					if comp.MaxLength != nil {
						acc.MaxLength = comp.MaxLength
					}
					first[name] = &acc
				} else if kind == model.KAllOf && !diffAllowed && !zeroLimit && rapid.Bool().Draw(t, "looser") {
					// the open finding is "the first branch wins": that is right whenever the first branch
					// is the strictest, so later branches may restate the property more loosely
					node = c11Loosen(t, prev)
					cc.overlap = "looser-later"
				} else if rapid.Bool().Draw(t, "identical") || !diffAllowed {
					node = prev
					if cc.overlap == "disjoint" {
						cc.overlap = "identical"
					}
					if !diffAllowed {
						c.ExcludedMap()["branches.same_property_different_constraints"]++
					}
				} else {
					node = c11Leaf(t, kindOf[name])
					cc.overlap = "different"
				}
			} else {
				kindOf[name] = rapid.IntRange(0, 3).Draw(t, "leafkind")
				node = c11Leaf(t, kindOf[name])
				first[name] = node
				firstIdx[name] = i
			}
			b.Props = append(b.Props, model.Prop{Name: name, Node: node})
			if rapid.IntRange(0, 9).Draw(t, "req") < 6 {
				b.Required = append(b.Required, name)
			}
		}
		if len(b.Required) == 0 && rapid.IntRange(0, 3).Draw(t, "forcereq") > 0 {
			b.Required = []string{b.Props[0].Name}
		}
		cc.branches = append(cc.branches, b)
		byRef := rapid.IntRange(0, 2).Draw(t, "byref") == 0
		if byRef && kind == model.KAnyOf && len(b.Required) == 0 && c.Avoid("anyof.ref_branch_without_validators") {
			c.ExcludedMap()["anyof.ref_branch_without_validators"]++
			b.Required = []string{b.Props[0].Name}
		}
		refBranch[i] = byRef
		if byRef {
			dn := fmt.Sprintf("B%d", i)
			f.Defs = append(f.Defs, model.Def{Name: dn, Node: b})
			comp.Branches = append(comp.Branches, &model.Node{Kind: model.KRef, Ref: "#/$defs/" + dn, Target: b})
			c.Count("branch.ref")
		} else {
			comp.Branches = append(comp.Branches, b)
			c.Count("branch.inline")
		}
	}
	if kind == model.KAllOf && len(cc.branches) >= 2 && rapid.IntRange(0, 2).Draw(t, "crossrequired") == 0 {
		// a branch requires a name that only ANOTHER branch declares (and does not require)
		i := rapid.IntRange(0, len(cc.branches)-1).Draw(t, "crossfrom")
		var cands []string
		for j, b := range cc.branches {
			if j == i {
				continue
			}
			for _, p := range b.Props {
				if cc.branches[i].Prop(p.Name) == nil && !b.IsRequired(p.Name) {
					cands = append(cands, p.Name)
				}
			}
		}
		if len(cands) > 0 {
			name := rapid.SampledFrom(cands).Draw(t, "crossname")
			cc.branches[i].Required = append(cc.branches[i].Required, name)
			c.Count("shape.cross_branch_required")
		}
	}
	f.Root = &model.Node{Kind: model.KObject, Props: []model.Prop{{Name: "c", Node: comp}}, Required: []string{"c"}}
	// a second list that starts with the same $ref branch (merging one list must not leak into the
	// shared definition): its own extra branch declares other properties
	if first := comp.Branches[0]; first.Kind == model.KRef && rapid.IntRange(0, 1).Draw(t, "secondlist") == 0 {
		extra := &model.Node{Kind: model.KObject, Props: []model.Prop{{Name: "zOwn", Node: &model.Node{Kind: model.KBoolean}}}, Required: []string{"zOwn"}}
		second := &model.Node{Kind: kind, Branches: []*model.Node{{Kind: model.KRef, Ref: first.Ref, Target: first.Target}, extra}}
		// generated before "c" (properties are processed in sorted order) and after it
		name := rapid.SampledFrom([]string{"a2", "d2"}).Draw(t, "secondname")
		f.Root.Props = append(f.Root.Props, model.Prop{Name: name, Node: second})
		cc.second, cc.secondName = second, name
		c.Count("shape.second_list_shares_ref")
	}
	return cc
}

func satisfied(cc *c11Case, v jv.V) []bool {
	out := make([]bool, len(cc.branches))
	for i, b := range cc.branches {
		out[i] = oracle.Accepts(b, v)
	}
	return out
}

// violating returns a value of the schema's JSON type that the schema rejects.
func violating(n *model.Node) (jv.V, bool) {
	switch n.Kind {
	case model.KInteger, model.KNumber:
		for _, p := range docs.Probes(n, nil, false) {
			if !p.Accept {
				return p.V, true
			}
		}
	case model.KString:
		if n.MinLength != nil && *n.MinLength > 0 {
			return jv.StrV(strings.Repeat("a", *n.MinLength-1)), true
		}
		if n.MaxLength != nil {
			return jv.StrV(strings.Repeat("a", *n.MaxLength+1)), true
		}
	}
	return jv.V{}, false
}

// buildForSubset tries to construct a document satisfying exactly the branches
// in want.
func buildForSubset(t *rapid.T, cc *c11Case, want []bool, o *docs.Opts) (jv.V, bool) {
	doc := jv.ObjV()
	// satisfy wanted branches
	for i, b := range cc.branches {
		if !want[i] {
			continue
		}
		for _, p := range b.Props {
			if doc.Has(p.Name) {
				continue
			}
			if !b.IsRequired(p.Name) && rapid.Bool().Draw(t, "skipopt") {
				continue
			}
			// a value valid for every wanted branch declaring this property
			var ok bool
			var val jv.V
			for try := 0; try < 6 && !ok; try++ {
				v, vok := docs.Valid(t, p.Node, o)
				if !vok {
					break
				}
				ok = true
				for j, ob := range cc.branches {
					if want[j] {
						if on := ob.Prop(p.Name); on != nil && !oracle.Accepts(on, v) {
							ok = false
						}
					}
				}
				val = v
			}
			if ok {
				doc = doc.Set(p.Name, val)
			}
		}
	}
	// break unwanted branches
	for i, b := range cc.branches {
		if want[i] {
			continue
		}
		if oracle.Accepts(b, doc) {
			broken := false
			for _, p := range b.Props {
				if doc.Has(p.Name) {
					continue
				}
				if v, ok := violating(p.Node); ok {
					doc = doc.Set(p.Name, v)
					broken = true
					break
				}
			}
			_ = broken
		}
	}
	got := satisfied(cc, doc)
	for i := range got {
		if got[i] != want[i] {
			return doc, false
		}
	}
	return doc, true
}

func TestC11(t *testing.T) {
	c := core.New(t, "C11")
	defer c.Finish()
	c.Rule("a required property that is an allOf or anyOf of 1-4 object branches (inline or $ref; property sets drawn from a shared pool so that they are disjoint, overlap with identical schemas, or overlap with different constraints; each branch with its own required list and value constraints); for every subset B of the branches a document is constructed to satisfy exactly the branches in B (verified per branch by the oracle; impossible subsets are counted); oracle: allOf accepts iff B = all branches, anyOf accepts iff B is non-empty; for accepted documents the dump must bind the union of the branches' property names; non-trivial = B a proper non-empty subset; distinct by sha256(schema,args,document)")
	c.Assume("branch values keep the JSON type their declaring branch states (C11 scope)", "R4", "reference oracle section 1.4")
	eval := runReplayEval(stdJudge)
	if c.RunReplay(eval) {
		return
	}
	c.Regressions(eval)
	o := docOpts(c)
	o.ASCIIOnly = true // a value may be judged by several branches with different length limits
	runProperty(c, "run", c.N(300, 6000), 0, func(rt *rapid.T) *RunCase {
		cc := genC11(rt, c)
		c.Count("kind." + cc.kind.String())
		c.Count("overlap." + cc.overlap)
		files := []*model.File{cc.file}
		var scen []string
		var directed []map[string]string
		switch rapid.IntRange(0, 5).Draw(rt, "scenario") {
		case 0:
			scen = addMixinScenario(rt, c, cc.file)
		case 1:
			files = append(files, addSameLocalRefSibling(rt, c, cc.file, cc.kind))
			scen = []string{"ownitem", "sibling"}
		case 2:
			directed = addCollidingAllOfLists(rt, c, cc.file)
			scen = []string{"colev", "colev_ent"}
		}
		// scenario properties stay optional: the documents of the main list do not carry them
		var req []string
		for _, r := range cc.file.Root.Required {
			keep := true
			for _, sname := range scen {
				keep = keep && r != sname
			}
			if keep {
				req = append(req, r)
			}
		}
		cc.file.Root.Required = req
		cs := caseOf(baseConfig(), []string{cc.file.RelPath}, files...)
		var jobs []core.Job
		n := len(cc.branches)
		seen := map[string]bool{}
		for mask := 0; mask < 1<<n; mask++ {
			want := make([]bool, n)
			cnt := 0
			for i := 0; i < n; i++ {
				want[i] = mask&(1<<i) != 0
				if want[i] {
					cnt++
				}
			}
			inner, ok := buildForSubset(rt, cc, want, o)
			if !ok {
				c.Count("subset.impossible")
				continue
			}
			doc := jv.ObjV(jv.Field("c", inner))
			key := string(doc.Marshal())
			if seen[key] {
				continue
			}
			seen[key] = true
			accept := oracle.Accepts(cc.file.Root, doc)
			lbl := fmt.Sprintf("%s:B=%d/%d", cc.kind, cnt, n)
			j := core.Job{Type: progRoot, Op: "json", Doc: key, Label: lbl}
			if accept {
				j.Expect = "accept"
				j.ExpectVal = expJSON(docs.Expect(cc.file.Root, doc))
			} else {
				j.Expect = "reject"
				j.Rule = "branches"
			}
			jobs = append(jobs, j)
			c.Count("doc." + j.Expect + "." + cc.kind.String())
			if cnt > 0 && cnt < n {
				c.NonTrivial(cs.Files[0].Text, key)
				c.Count("subset.proper")
			}
		}
		if len(directed) > 0 {
			jobs = append(jobs, directedJobs(rt, c, cc.file.Root, o, "collidinglists", directed)...)
		}
		if cc.second != nil {
			// the second list must behave as its own branches say, whatever the first list merged:
			// give it the first branch's document plus its own property, with and without "c"
			want := make([]bool, len(cc.branches))
			want[0] = true
			base, ok := docs.Valid(rt, cc.second, o)
			if ok {
				cdoc, cok := buildForSubset(rt, cc, allTrue(len(cc.branches)), o)
				for _, withC := range []bool{false, true} {
					doc := jv.ObjV(jv.Field(cc.secondName, base))
					if withC {
						if !cok {
							continue
						}
						doc.O = append(doc.O, jv.KV{K: "c", V: cdoc})
					} else if cc.file.Root.IsRequired("c") {
						if !cok {
							continue
						}
						doc.O = append(doc.O, jv.KV{K: "c", V: cdoc})
					}
					if oracle.Accepts(cc.file.Root, doc) {
						jobs = append(jobs, core.Job{Type: progRoot, Op: "json", Doc: string(doc.Marshal()), Expect: "accept", ExpectVal: expJSON(docs.Expect(cc.file.Root, doc)), Label: "secondlist:valid"})
						c.Count("doc.secondlist.valid")
					}
				}
				// a key declared only by the FIRST list's other branches, with a value of another type:
				// the second list does not declare it, so it must be ignored
				declared := map[string]bool{}
				for _, b := range cc.second.Branches {
					if rb := b.Resolve(); rb != nil {
						for _, p := range rb.Props {
							declared[p.Name] = true
						}
					}
				}
				for _, b := range cc.branches[1:] {
					for _, p := range b.Props {
						if declared[p.Name] {
							continue
						}
						foreign := jv.ObjV(jv.Field("zzk", jv.IntV(1)))
						doc := jv.ObjV(jv.Field(cc.secondName, base.Set(p.Name, foreign)))
						if cok {
							doc.O = append(doc.O, jv.KV{K: "c", V: cdoc})
						}
						if oracle.Accepts(cc.file.Root, doc) {
							jobs = append(jobs, core.Job{Type: progRoot, Op: "json", Doc: string(doc.Marshal()), Expect: "accept", Label: "secondlist:foreign-key"})
							c.Count("doc.secondlist.foreign_key")
						}
						declared[p.Name] = true
					}
				}
				// single-fault mutants inside the second list
				full := jv.ObjV(jv.Field(cc.secondName, base))
				if cok {
					full.O = append(full.O, jv.KV{K: "c", V: cdoc})
				}
				if oracle.Accepts(cc.file.Root, full) {
					muts, _ := docs.Mutants(rt, cc.file.Root, full, map[string]bool{"type": true, "required": true, "numeric": true, "string": true}, o)
					for k := range muts {
						m := &muts[k]
						if !strings.HasPrefix(m.Path, "/"+cc.secondName) || k > 60 {
							continue
						}
						jobs = append(jobs, core.Job{Type: progRoot, Op: "json", Doc: string(m.Doc.Marshal()), Expect: "reject", Rule: m.Rule() + "@" + m.Path, Label: "secondlist:" + strings.SplitN(m.Label, "<-", 2)[0]})
						c.Count("doc.secondlist.reject")
					}
				}
			}
		}
		// directed scenarios next to the main list: a mixin definition used at two levels of nested
		// allOf lists (or twice in one list), and a sibling file whose list uses the same local
		// reference text for its own, different definition
		if len(scen) > 0 {
			jobs = append(jobs, scenarioJobs(rt, c, cc.file.Root, scen, o)...)
		}
		c.Sample(sampleOf(cs, jobs))
		return &RunCase{Case: cs, Jobs: jobs}
	}, stdJudge)
}

// addMixinScenario: definition Audited referenced by an outer allOf list and
// again by an allOf list inside a property of that list's other branch, or
// twice by one list. Returns the root property names it added.
func addMixinScenario(t *rapid.T, c *core.Ctx, f *model.File) []string {
	one := 1
	audited := &model.Node{Kind: model.KObject, Props: []model.Prop{
		{Name: "createdBy", Node: &model.Node{Kind: model.KString, MinLength: &one}},
		{Name: "rev", Node: &model.Node{Kind: model.KInteger}},
	}, Required: []string{"createdBy"}}
	f.Defs = append(f.Defs, model.Def{Name: "Audited", Node: audited})
	ref := func() *model.Node { return &model.Node{Kind: model.KRef, Ref: "#/$defs/Audited", Target: audited} }
	var node *model.Node
	if rapid.IntRange(0, 2).Draw(t, "mixintwice") == 0 {
		node = &model.Node{Kind: model.KAllOf, Branches: []*model.Node{ref(), ref()}}
		c.Count("shape.mixin_twice_in_one_list")
	} else {
		innerExtra := &model.Node{Kind: model.KObject, Props: []model.Prop{{Name: "note", Node: &model.Node{Kind: model.KString}}}, Required: []string{"note"}}
		inner := &model.Node{Kind: model.KAllOf, Branches: []*model.Node{ref(), innerExtra}}
		outerExtra := &model.Node{Kind: model.KObject, Props: []model.Prop{{Name: "inner", Node: inner}, {Name: "label", Node: &model.Node{Kind: model.KString}}}, Required: []string{"inner"}}
		node = &model.Node{Kind: model.KAllOf, Branches: []*model.Node{ref(), outerExtra}}
		if rapid.Bool().Draw(t, "mixinswap") {
			node.Branches[0], node.Branches[1] = node.Branches[1], node.Branches[0]
		}
		c.Count("shape.mixin_at_two_levels")
	}
	f.Root.Props = append(f.Root.Props, model.Prop{Name: "zmix", Node: node})
	f.Root.Required = append(f.Root.Required, "zmix")
	return []string{"zmix"}
}

// scenarioJobs: one valid document of the whole root plus the single-fault
// mutants (type, required, numeric, string) that sit below the named root
// properties.
func scenarioJobs(t *rapid.T, c *core.Ctx, root *model.Node, props []string, o *docs.Opts) []core.Job {
	var jobs []core.Job
	oo := *o
	oo.AllProps = true
	for k := 0; k < 2; k++ {
		v, ok := docs.Valid(t, root, &oo)
		if !ok || !oracle.Accepts(root, v) {
			c.Count("doc.scenario.no_valid")
			continue
		}
		jobs = append(jobs, core.Job{Type: progRoot, Op: "json", Doc: string(v.Marshal()), Expect: "accept", ExpectVal: expJSON(docs.Expect(root, v)), Label: "scenario:valid"})
		c.Count("doc.scenario.valid")
		muts, _ := docs.Mutants(t, root, v, map[string]bool{"type": true, "required": true, "numeric": true, "string": true}, o)
		n := 0
		for i := range muts {
			m := &muts[i]
			under := false
			for _, p := range props {
				if m.Path == "/"+p || strings.HasPrefix(m.Path, "/"+p+"/") {
					under = true
				}
			}
			if !under || n >= 80 {
				continue
			}
			n++
			jobs = append(jobs, core.Job{Type: progRoot, Op: "json", Doc: string(m.Doc.Marshal()), Expect: "reject", Rule: m.Rule() + "@" + m.Path, Label: "scenario:" + strings.SplitN(m.Label, "<-", 2)[0]})
			c.Count("doc.scenario.reject")
		}
	}
	return jobs
}

func allTrue(n int) []bool {
	out := make([]bool, n)
	for i := range out {
		out[i] = true
	}
	return out
}
