package props

import (
	"fmt"
	"strings"
	"testing"

	"pgregory.net/rapid"

	"verif/harness/core"
	"verif/harness/docs"
	"verif/harness/gen"
	"verif/harness/jv"
	"verif/harness/model"
	"verif/harness/sgen"
)

// structuralProfile: nested objects/arrays, refs, branches, formats, typed
// additional properties, sized numbers; no defaults (C09's subject).
func structuralProfile(c *core.Ctx) *sgen.Profile {
	return &sgen.Profile{
		MaxDepth: 3, MinProps: 2, MaxProps: 7, MinDefs: 1, MaxDefs: 3, ArrayDepth: 2,
		WString: 4, WInteger: 3, WNumber: 3, WBoolean: 2, WObject: 5, WArray: 4, WRef: 4, WEnum: 1, WAllOf: 2, WAnyOf: 2, WMap: 1, WAny: 1,
		PConstraint: 0.3, PNullable: 0.25, PRequired: 0.5, PFormat: 0.2, PAdditional: 0.25,
		Avoid: c.Avoid, Excluded: c.ExcludedMap(), Sat: docs.Satisfiable, UntypedAdditional: true,
	}
}

// capitalizationPool: --capitalization values, among them words that do not
// start with an upper-case letter (the field must stay exported).
var capitalizationPool = []string{"ID", "URL", "HTTP", "gRPC", "iOS", "mTLS", "eBPF", "API"}

// drawDecodeOptions draws the options that must not change which documents
// decode and how (C02-C04 run under them): the root type keeps its
// file-derived name. With capitalizations, root properties whose names start
// with, contain or equal the words are added.
func drawDecodeOptions(t *rapid.T, c *core.Ctx, f *model.File) gen.Config {
	cfg := baseConfig()
	cfg.ExtraImports = rapid.IntRange(0, 2).Draw(t, "optExtra") == 0
	cfg.MinSizedInts = rapid.IntRange(0, 3).Draw(t, "optMinSized") == 0
	if cfg.MinSizedInts {
		// open C15 findings about what the flag does to typed integer enums and to
		// constrained integer array items
		bad := ""
		visit := func(n *model.Node) {
			if n.Kind == model.KEnum && n.EnumType == "integer" {
				bad = "enums.typed_integer_min_sized"
			}
			if n.Kind == model.KArray && n.Items != nil {
				// inline or through a named definition (type X uint8 gives []X the same byte-string treatment)
				if it := n.Items.Resolve(); it != nil && it.Kind == model.KInteger && (it.Maximum != nil || it.ExclMax != nil) {
					bad = "minsized.uint8_array_items"
				}
			}
		}
		model.Walk(f.Root, visit)
		for _, d := range f.Defs {
			model.Walk(d.Node, visit)
		}
		if bad != "" && c.Avoid(bad) {
			c.ExcludedMap()[bad]++
			cfg.MinSizedInts = false
		}
	}
	if rapid.IntRange(0, 3).Draw(t, "optTags") == 0 {
		cfg.Tags = rapid.SampledFrom([][]string{{"json"}, {"json", "yaml"}, {"json", "toml", "xml"}, {"yaml", "json", "mapstructure"}}).Draw(t, "tags")
	}
	if rapid.IntRange(0, 2).Draw(t, "optCaps") == 0 && f.Root.Kind == model.KObject {
		n := rapid.IntRange(1, 3).Draw(t, "ncaps")
		cfg.Capitalizations = rapid.Permutation(capitalizationPool).Draw(t, "caps")[:n]
		have := map[string]bool{}
		for _, p := range f.Root.Props {
			have[strings.ToLower(strings.ReplaceAll(p.Name, "_", ""))] = true
		}
		for i, w := range cfg.Capitalizations {
			lw := strings.ToLower(w)
			name := rapid.SampledFrom([]string{lw + "Port", w, lw, "my_" + lw, lw + "_" + lw, "the" + strings.ToUpper(lw[:1]) + lw[1:] + "Value"}).Draw(t, fmt.Sprintf("capname%d", i))
			k := strings.ToLower(strings.ReplaceAll(name, "_", ""))
			if have[k] {
				continue
			}
			have[k] = true
			kind := rapid.SampledFrom([]model.Kind{model.KInteger, model.KString, model.KBoolean}).Draw(t, fmt.Sprintf("capkind%d", i))
			node := &model.Node{Kind: kind}
			if rapid.Bool().Draw(t, fmt.Sprintf("capobj%d", i)) {
				node = &model.Node{Kind: model.KObject, Props: []model.Prop{{Name: lw + "Inner", Node: node}}, Required: []string{lw + "Inner"}}
			}
			f.Root.Props = append(f.Root.Props, model.Prop{Name: name, Node: node})
			if rapid.Bool().Draw(t, fmt.Sprintf("capreq%d", i)) {
				f.Root.Required = append(f.Root.Required, name)
			}
			c.Count("shape.capitalized_property")
		}
	}
	return cfg
}

func genStructural(rt *rapid.T, c *core.Ctx, prof *sgen.Profile) *model.File {
	f := prof.File(rt, "prog.json")
	maybeStaleLegacy(rt, c, f, 5)
	return f
}

func TestC04(t *testing.T) {
	c := core.New(t, "C04")
	defer c.Finish()
	c.Rule("programs from the structural profile (objects at root, nested property, array element, referenced definition, allOf/anyOf branch; random required subsets, some required properties nullable); from each valid document every single deletion of a present required key (no default) must be rejected, every valid document (optional keys absent, nullable required keys null) accepted; non-trivial = deletion inside a nested/array/ref/branch object; distinct by sha256(schema,args,document)")
	c.Assume("R3", "R4", "reference oracle section 1.4")
	eval := runReplayEval(stdJudge)
	if c.RunReplay(eval) {
		return
	}
	c.Regressions(eval)
	prof := structuralProfile(c)
	prof.PRequired = 0.65
	o := docOpts(c)
	plan := &docPlan{NValid: 5, Kinds: map[string]bool{"required": true},
		NTMutant: func(m *docs.Mutant) bool {
			return m.Pos.Depth >= 2 || m.Pos.ViaRef || m.Pos.InArray > 0 || m.Pos.InBranch
		},
		NTValid: func(v jv.V) bool { return true }}
	runProperty(c, "run", c.N(300, 8000), 0, func(rt *rapid.T) *RunCase {
		f := genStructural(rt, c, prof)
		files := []*model.File{f}
		switch rapid.IntRange(0, 5).Draw(rt, "multifile") {
		case 0:
			files = append(files, addSameLocalRefSibling(rt, c, f))
		case 1:
			files = append(files, addSameBasenameFiles(rt, c, f)...)
		case 2:
			addCollidingDefs(rt, c, f, rapid.SampledFrom([]string{"required", "default"}).Draw(rt, "collidefamily"))
		}
		if len(f.Defs) > 0 && rapid.IntRange(0, 3).Draw(rt, "stalelegacy") == 0 {
			// both container keywords; the legacy one holds a stale copy without the required lists
			f.Spelling.BothDefs, f.Spelling.StaleLegacy = true, true
			c.Count("shape.stale_legacy_definitions")
		}
		var directed []map[string]string
		if f.Root.Kind == model.KObject && rapid.IntRange(0, 3).Draw(rt, "sharedbase") == 0 {
			directed = addSharedBaseAllOf(rt, c, f)
		}
		var directed2 []map[string]string
		if f.Root.Kind == model.KObject && rapid.IntRange(0, 3).Draw(rt, "nestedanyof") == 0 {
			directed2 = addNestedAnyOfShared(rt, c, f)
		}
		cs := caseOf(drawDecodeOptions(rt, c, f), []string{f.RelPath}, files...)
		countShapes(c, f, cs.Config)
		jobs := buildJobs(rt, c, f.Root, progRoot, plan, o, cs)
		if len(directed) > 0 {
			jobs = append(jobs, directedJobs(rt, c, f.Root, o, "sharedbase", directed)...)
		}
		if len(directed2) > 0 {
			// only the verdict: the merged anyOf struct holds the nested values as maps, which loses
			// nothing; the generic documents that carry the property are dropped for the same reason
			var kept []core.Job
			for _, j := range jobs {
				if !strings.Contains(j.Doc, `"zpayment"`) {
					kept = append(kept, j)
				}
			}
			jobs = append(kept, directedJobsV(rt, c, f.Root, o, "nestedanyof", directed2, false)...)
		}
		for _, j := range jobs {
			if j.Expect == "reject" {
				for _, tag := range []string{"ref", "arr", "branch"} {
					if strings.Contains(j.Label, tag) {
						c.Count("reqdel." + tag)
					}
				}
				c.Count("reqdel.depth" + strings.Repeat("+", strings.Count(j.Rule, "/")-1))
			}
		}
		c.Sample(sampleOf(cs, jobs))
		return &RunCase{Case: cs, Jobs: jobs, Model: modelIfSingle(cs, f)}
	}, stdJudge)
}

func TestC03(t *testing.T) {
	c := core.New(t, "C03")
	defer c.Finish()
	c.Rule("programs from the structural profile; at every typed position of a valid document (property, array element at depth 1-2, typed additional-property value, through $ref, inside allOf/anyOf branches) one value of each other JSON type (string, integer, non-integral number, boolean, array, object) is substituted and must be rejected; null at every position whose type list contains null must be accepted and decode to nil/zero; non-trivial = substitution below the root level or through a $ref/array; distinct by sha256(schema,args,document)")
	c.Assume("R1 (1.0 is never sent to an integer position)", "R3", "R4", "R7 multi-type positions excluded", "reference oracle section 1.4")
	eval := runReplayEval(stdJudge)
	if c.RunReplay(eval) {
		return
	}
	c.Regressions(eval)
	prof := structuralProfile(c)
	prof.WAny = 0
	prof.WNull, prof.NullItems, prof.ArrayDepth = 2, true, 3
	o := docOpts(c)
	plan := &docPlan{NValid: 3, Kinds: map[string]bool{"type": true},
		Keep: func(m *docs.Mutant) bool {
			if m.Pos.InAddl && m.Pos.Node.Kind == model.KInteger && strings.HasSuffix(m.Label, "<-fraction") && c.Avoid("addprops.int_fraction") {
				c.ExcludedMap()["addprops.int_fraction"]++
				return false
			}
			return true
		},
		NTMutant: func(m *docs.Mutant) bool { return m.Pos.Depth >= 2 || m.Pos.ViaRef || m.Pos.InArray > 0 },
		NTValid:  func(v jv.V) bool { return true }}
	runProperty(c, "run", c.N(200, 5000), 0, func(rt *rapid.T) *RunCase {
		f := genStructural(rt, c, prof)
		if rapid.IntRange(0, 3).Draw(rt, "namecollision") == 0 {
			addNameCollision(rt, c, f)
		}
		if rapid.IntRange(0, 2).Draw(rt, "nullarrays") == 0 {
			addNullItemArrays(rt, c, f)
		}
		if f.Root.Kind == model.KObject && rapid.IntRange(0, 2).Draw(rt, "nullablemaps") == 0 {
			addNullableMaps(rt, c, f)
		}
		if rapid.IntRange(0, 3).Draw(rt, "fracmultint") == 0 && f.Root.Kind == model.KObject {
			// an integer stays an integer whatever its multipleOf says (1.5 and 1.25 keep the tool's
			// truncated divisor harmless for valid documents: the valid integers are multiples of 3 / 5)
			m := rapid.SampledFrom([]float64{1.5, 1.25}).Draw(rt, "fracmultv")
			mk := func() *model.Node { return &model.Node{Kind: model.KInteger, MultipleOf: &m} }
			nn := mk()
			nn.Nullable = true
			f.Root.Props = append(f.Root.Props, model.Prop{Name: "zfracmult", Node: mk()}, model.Prop{Name: "zfracmultnull", Node: nn},
				model.Prop{Name: "zfracmultlist", Node: &model.Node{Kind: model.KArray, Items: &model.Node{Kind: model.KInteger, MultipleOf: &m}}})
			f.Root.Required = append(f.Root.Required, "zfracmult", "zfracmultlist")
			c.Count("shape.integer_with_fractional_multipleof")
		}
		if rapid.IntRange(0, 3).Draw(rt, "nullableallof") == 0 {
			addNullableObjectAllOf(rt, c, f)
		}
		files := []*model.File{f}
		if rapid.IntRange(0, 3).Draw(rt, "samelocalref") == 0 {
			files = append(files, addSameLocalRefSibling(rt, c, f))
		}
		cs := caseOf(drawDecodeOptions(rt, c, f), []string{f.RelPath}, files...)
		countShapes(c, f, cs.Config)
		jobs := buildJobs(rt, c, f.Root, progRoot, plan, o, cs)
		// explicit nulls at every nullable position of an all-present document
		oo := *o
		oo.AllProps, oo.NoNulls = true, true
		if v, ok := docs.Valid(rt, f.Root, &oo); ok {
			for _, p := range docs.Positions(f.Root, v) {
				if p.Orig == nil || !p.Orig.Nullable || p.Parent == nil {
					continue
				}
				if p.Node.Kind == model.KObject && len(p.Node.Props) > 0 && c.Avoid("nulls.nullable_object_with_properties") {
					c.ExcludedMap()["nulls.nullable_object_with_properties"]++
					continue
				}
				nd := p.Replace(jv.NullV())
				e := docs.Expect(f.Root, nd)
				jobs = append(jobs, core.Job{Type: progRoot, Op: "json", Doc: string(nd.Marshal()), Expect: "accept", ExpectVal: expJSON(e), Label: "null:" + p.Node.Kind.String()})
				c.Count("doc.null." + p.Node.Kind.String())
				c.NonTrivial(cs.Files[0].Text, string(nd.Marshal()))
			}
		}
		c.Sample(sampleOf(cs, jobs))
		return &RunCase{Case: cs, Jobs: jobs, Model: modelIfSingle(cs, f)}
	}, stdJudge)
}

// addSameBasenameFiles: two whole-file references to files with the same base
// name in different directories (both root types want the same Go name) whose
// required sets differ; each reference must keep its own file's rules, as a
// property and as array items.
func addSameBasenameFiles(t *rapid.T, c *core.Ctx, f *model.File) []*model.File {
	mk := func(dir string) *model.File {
		props := []model.Prop{
			{Name: "street", Node: &model.Node{Kind: model.KString}},
			{Name: "zip", Node: &model.Node{Kind: model.KString}},
			{Name: "phone", Node: &model.Node{Kind: model.KString}},
		}
		var req []string
		for _, p := range props {
			if rapid.Bool().Draw(t, "sbreq"+dir+p.Name) {
				req = append(req, p.Name)
			}
		}
		return &model.File{RelPath: dir + "/address.json", ID: "https://example.com/" + dir + "/address",
			Root: &model.Node{Kind: model.KObject, Props: props, Required: req}}
	}
	a, b := mk("billing"), mk("shipping")
	f.Root.Props = append(f.Root.Props,
		model.Prop{Name: "zbilling", Node: &model.Node{Kind: model.KRef, Ref: "billing/address.json", Target: a.Root}},
		model.Prop{Name: "zshipping", Node: &model.Node{Kind: model.KRef, Ref: "shipping/address.json", Target: b.Root}},
		model.Prop{Name: "zformer", Node: &model.Node{Kind: model.KArray, Items: &model.Node{Kind: model.KRef, Ref: "shipping/address.json", Target: b.Root}}})
	f.Root.Required = append(f.Root.Required, "zbilling", "zshipping", "zformer")
	c.Count("shape.same_basename_files")
	return []*model.File{a, b}
}

// addNullableObjectAllOf adds a required property typed by an allOf in which one
// member is a nullable object (type list in either order, inline or by
// reference) next to a plain object member, in either member order: the typed
// properties below it must still reject other JSON types.
func addNullableObjectAllOf(t *rapid.T, c *core.Ctx, f *model.File) {
	if f.Root.Kind != model.KObject {
		return
	}
	nobj := &model.Node{Kind: model.KObject, Nullable: true, NullFirst: rapid.Bool().Draw(t, "naoNullFirst"), Props: []model.Prop{
		{Name: "zs", Node: &model.Node{Kind: model.KString}},
		{Name: "zn", Node: &model.Node{Kind: model.KInteger}},
		{Name: "zb", Node: &model.Node{Kind: model.KBoolean}},
		{Name: "za", Node: &model.Node{Kind: model.KArray, Items: &model.Node{Kind: model.KString}}},
	}, Required: []string{"zs"}}
	first := nobj
	if rapid.Bool().Draw(t, "naoByRef") {
		f.Defs = append(f.Defs, model.Def{Name: "ZNullableBase", Node: nobj})
		first = &model.Node{Kind: model.KRef, Ref: "#/$defs/ZNullableBase", Target: nobj}
	}
	other := &model.Node{Kind: model.KObject, Props: []model.Prop{{Name: "zextra", Node: &model.Node{Kind: model.KBoolean}}}}
	br := []*model.Node{first, other}
	if rapid.Bool().Draw(t, "naoSwap") {
		br = []*model.Node{other, first}
	}
	f.Root.Props = append(f.Root.Props, model.Prop{Name: "znallof", Node: &model.Node{Kind: model.KAllOf, Branches: br}})
	f.Root.Required = append(f.Root.Required, "znallof")
	c.Count("shape.nullable_object_in_allof")
}

// addNullItemArrays adds required arrays (nesting 1-4, at least one element per
// level) whose innermost items are of type null: only null is accepted there.
func addNullItemArrays(t *rapid.T, c *core.Ctx, f *model.File) {
	if f.Root.Kind != model.KObject {
		return
	}
	depth := rapid.IntRange(1, 4).Draw(t, "nullarrdepth")
	one := 1
	n := &model.Node{Kind: model.KNull}
	for i := 0; i < depth; i++ {
		n = &model.Node{Kind: model.KArray, Items: n, MinItems: &one}
	}
	name := fmt.Sprintf("znullarr%d", depth)
	f.Root.Props = append(f.Root.Props, model.Prop{Name: name, Node: n})
	f.Root.Required = append(f.Root.Required, name)
	c.Count(fmt.Sprintf("shape.null_items_depth%d", depth))
}

func TestC02(t *testing.T) {
	c := core.New(t, "C02")
	defer c.Finish()
	c.Rule("programs from the structural profile (nested objects/arrays, formats date/time/date-time/ipv4/ipv6, sized and unsized numbers, typed additionalProperties, refs, allOf/anyOf); per program 16 valid documents (all optional present, all absent, random subsets, nulls at nullable positions, boundary values, integers up to 2^53+2, 17-digit floats, multi-byte strings, additional keys); oracle: accepted; reflective dump walked with the model shows every declared value in the field whose json tag is that exact property name (ints exact, floats bit-for-bit, strings byte-for-byte, formats by value); json.Marshal output contains every non-empty declared value unchanged; additional-properties map holds exactly the undeclared keys; non-trivial = every valid document of a program with nesting; distinct by sha256(schema,args,document)")
	c.Assume("R2", "R3", "R4 (additional keys never case-fold onto declared keys or Go field names)", "R5 canonical format spellings", "reference oracle section 1.4")
	eval := runReplayEval(stdJudge)
	if c.RunReplay(eval) {
		return
	}
	c.Regressions(eval)
	prof := structuralProfile(c)
	prof.PFormat = 0.3
	o := docOpts(c)
	plan := &docPlan{NValid: 16, Remarshal: true, NTValid: func(v jv.V) bool { return true }}
	runProperty(c, "run", c.N(250, 6000), 0, func(rt *rapid.T) *RunCase {
		f := genStructural(rt, c, prof)
		if f.Root.Kind == model.KObject && rapid.IntRange(0, 3).Draw(rt, "namecollision") == 0 {
			addNameCollision(rt, c, f)
		}
		if f.Root.Kind == model.KObject && rapid.IntRange(0, 3).Draw(rt, "nulllistedenums") == 0 {
			addNullListedEnums(rt, c, f)
		}
		addOptionalDefaults(rt, c, f, 0.15, o)
		files := []*model.File{f}
		if rapid.IntRange(0, 4).Draw(rt, "sibling") == 0 {
			kind := model.KAllOf
			if rapid.Bool().Draw(rt, "siblinganyof") {
				kind = model.KAnyOf
			}
			sib := addSameLocalRefSibling(rt, c, f, kind)
			files = append(files, sib)
			if rapid.Bool().Draw(rt, "siblingnoid") {
				// neither document states an identifier
				f.NoID, sib.NoID = true, true
				c.Count("shape.sibling_without_ids")
			}
		}
		f.Schema = rapid.SampledFrom(schemaURIs).Draw(rt, "schemauri")
		cs := caseOf(drawDecodeOptions(rt, c, f), []string{f.RelPath}, files...)
		countShapes(c, f, cs.Config)
		jobs := buildJobs(rt, c, f.Root, progRoot, plan, o, cs)
		c.Sample(sampleOf(cs, jobs))
		return &RunCase{Case: cs, Jobs: jobs, Model: modelIfSingle(cs, f)}
	}, stdJudge)
}

// addNullableMaps: property-less objects whose values are nullable primitives
// ([T,"null"] in either order -> map[string]*T), as a property, behind a
// reference and as array elements: a value of another type must be rejected,
// null accepted.
func addNullableMaps(t *rapid.T, c *core.Ctx, f *model.File) {
	mk := func(label string) *model.Node {
		k := rapid.SampledFrom([]model.Kind{model.KString, model.KInteger, model.KNumber, model.KBoolean}).Draw(t, label)
		return &model.Node{Kind: model.KObject, Additional: &model.Additional{Schema: &model.Node{Kind: k, Nullable: true, NullFirst: rapid.Bool().Draw(t, label+"nf")}}}
	}
	direct, viaRef, inArr := mk("nm0"), mk("nm1"), mk("nm2")
	f.Defs = append(f.Defs, model.Def{Name: "ZNullMap", Node: viaRef})
	f.Root.Props = append(f.Root.Props,
		model.Prop{Name: "znullmap", Node: direct},
		model.Prop{Name: "znullmapref", Node: &model.Node{Kind: model.KRef, Ref: "#/$defs/ZNullMap", Target: viaRef}},
		model.Prop{Name: "znullmaplist", Node: &model.Node{Kind: model.KArray, Items: inArr}})
	f.Root.Required = append(f.Root.Required, "znullmap")
	c.Count("shape.map_with_nullable_values")
}

// addNameCollision adds two object schemas that compete for one Go type name
// (nesting-depth concatenation: colx.yz vs colx_yz; or a definition named like
// <OtherDef><Property>) and declare the same property names with different
// types: the second one must not silently reuse the first one's struct.
func addNameCollision(t *rapid.T, c *core.Ctx, f *model.File) {
	kinds := []model.Kind{model.KString, model.KInteger, model.KBoolean, model.KNumber}
	perm := rapid.Permutation(kinds).Draw(t, "colkinds")
	leafObj := func(k model.Kind, ak model.Kind) *model.Node {
		return &model.Node{Kind: model.KObject, Props: []model.Prop{
			{Name: "id", Node: &model.Node{Kind: k}},
			{Name: "tags", Node: &model.Node{Kind: model.KArray, Items: &model.Node{Kind: ak}}},
		}, Required: []string{"id"}}
	}
	switch rapid.IntRange(0, 2).Draw(t, "colshape") {
	case 2:
		// three schemas for one name: colship.toAddress, colshipTo.address, colshipToAddress ->
		// all <Root>ColshipToAddress. The first differs from the second; the third equals the
		// second (it may share its declaration, never the first one's) or differs from both.
		first, second := leafObj(perm[0], perm[1]), leafObj(perm[1], perm[0])
		third := leafObj(perm[1], perm[0])
		if rapid.Bool().Draw(t, "thirddiffers") {
			third = leafObj(perm[2], perm[3])
		}
		wrap := func(name string, n *model.Node) *model.Node {
			return &model.Node{Kind: model.KObject, Props: []model.Prop{{Name: name, Node: n}}, Required: []string{name}}
		}
		f.Root.Props = append(f.Root.Props,
			model.Prop{Name: "colship", Node: wrap("toAddress", first)},
			model.Prop{Name: "colshipTo", Node: wrap("address", second)},
			model.Prop{Name: "colshipToAddress", Node: third})
		f.Root.Required = append(f.Root.Required, "colship", "colshipTo", "colshipToAddress")
		c.Count("shape.name_collision_three_way")
	case 0:
		// properties.colx.properties.yz  vs  properties.colx_yz  -> both <Root>ColxYz
		a := &model.Node{Kind: model.KObject, Props: []model.Prop{{Name: "yz", Node: leafObj(perm[0], perm[1])}}, Required: []string{"yz"}}
		f.Root.Props = append(f.Root.Props, model.Prop{Name: "colx", Node: a}, model.Prop{Name: "colx_yz", Node: leafObj(perm[1], perm[0])})
		f.Root.Required = append(f.Root.Required, "colx", "colx_yz")
	default:
		// $defs.Colpet.properties.owner  vs  $defs.ColpetOwner
		owner := leafObj(perm[0], perm[1])
		pet := &model.Node{Kind: model.KObject, Props: []model.Prop{{Name: "owner", Node: owner}}, Required: []string{"owner"}}
		other := leafObj(perm[1], perm[0])
		f.Defs = append(f.Defs, model.Def{Name: "Colpet", Node: pet}, model.Def{Name: "ColpetOwner", Node: other})
		f.Root.Props = append(f.Root.Props,
			model.Prop{Name: "colpet", Node: &model.Node{Kind: model.KRef, Ref: "#/$defs/Colpet", Target: pet}},
			model.Prop{Name: "colother", Node: &model.Node{Kind: model.KRef, Ref: "#/$defs/ColpetOwner", Target: other}})
		f.Root.Required = append(f.Root.Required, "colpet", "colother")
	}
	c.Count("shape.name_collision")
}

// addSameLocalRefSibling: the main file and a sibling file (referenced as a whole)
// both contain "allOf": [{"$ref": "#/$defs/Base"}, ...] with their OWN definition
// Base, typed differently: a local reference must resolve inside its own document.
func addSameLocalRefSibling(t *rapid.T, c *core.Ctx, f *model.File, kinds_ ...model.Kind) *model.File {
	compKind := model.KAllOf
	if len(kinds_) > 0 {
		compKind = kinds_[0]
	}
	kinds := rapid.Permutation([]model.Kind{model.KString, model.KInteger, model.KBoolean, model.KNumber}).Draw(t, "siblingkinds")
	mk := func(k model.Kind, ak model.Kind, extra string) (*model.Node, *model.Node) {
		base := &model.Node{Kind: model.KObject, Props: []model.Prop{
			{Name: "id", Node: &model.Node{Kind: k}},
			{Name: "tags", Node: &model.Node{Kind: model.KArray, Items: &model.Node{Kind: ak}}},
		}, Required: rapid.SampledFrom([][]string{{"id"}, {"id"}, {"id", "tags"}, {"tags"}, {}}).Draw(t, "siblingreq"+extra)}
		other := &model.Node{Kind: model.KObject, Props: []model.Prop{{Name: extra, Node: &model.Node{Kind: model.KBoolean}}}}
		if compKind == model.KAnyOf {
			// branches of an anyOf need rules of their own to tell them apart
			if len(base.Required) == 0 {
				base.Required = []string{"id"}
			}
			other.Required = []string{extra}
		}
		comp := &model.Node{Kind: compKind, Branches: []*model.Node{{Kind: model.KRef, Ref: "#/$defs/Base", Target: base}, other}}
		return base, comp
	}
	baseA, compA := mk(kinds[0], kinds[1], "qa")
	baseB, compB := mk(kinds[1], kinds[0], "qb")
	sib := &model.File{RelPath: "sibling.json", ID: "https://example.com/sibling",
		Root: &model.Node{Kind: model.KObject, Props: []model.Prop{{Name: "item", Node: compB}}, Required: []string{"item"}},
		Defs: []model.Def{{Name: "Base", Node: baseB}}}
	f.Defs = append(f.Defs, model.Def{Name: "Base", Node: baseA})
	f.Root.Props = append(f.Root.Props,
		model.Prop{Name: "ownitem", Node: compA},
		model.Prop{Name: "sibling", Node: &model.Node{Kind: model.KRef, Ref: "sibling.json", Target: sib.Root}})
	f.Root.Required = append(f.Root.Required, "ownitem", "sibling")
	c.Count("shape.same_local_ref_in_two_files")
	return sib
}
