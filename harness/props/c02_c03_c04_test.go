package props

import (
	"fmt"
	"strings"
	"testing"

	"pgregory.net/rapid"

	"verif/harness/core"
	"verif/harness/docs"
	"verif/harness/jv"
	"verif/harness/model"
	"verif/harness/sgen"
)

// structuralProfile: nested objects/arrays, refs, branches, formats, typed
// additional properties, sized numbers; no defaults (C09's subject).
func structuralProfile(c *core.Ctx) *sgen.Profile {
	return &sgen.Profile{
		MaxDepth: 3, MinProps: 2, MaxProps: 7, MinDefs: 1, MaxDefs: 3, ArrayDepth: 2,
		WString: 4, WInteger: 3, WNumber: 3, WBoolean: 2, WObject: 5, WArray: 4, WRef: 4, WEnum: 1, WAllOf: 2, WAnyOf: 2, WMap: 1, WAny: 1,
		PConstraint: 0.3, PNullable: 0.25, PRequired: 0.5, PFormat: 0.2, PAdditional: 0.25,
		Avoid: c.Avoid, Excluded: c.ExcludedMap(), Sat: docs.Satisfiable,
	}
}

func genStructural(rt *rapid.T, c *core.Ctx, prof *sgen.Profile) *model.File {
	f := prof.File(rt, "prog.json")
	return f
}

func TestC04(t *testing.T) {
	c := core.New(t, "C04")
	defer c.Finish()
	c.Rule("programs from the structural profile (objects at root, nested property, array element, referenced definition, allOf/anyOf branch; random required subsets, some required properties nullable); from each valid document every single deletion of a present required key (no default) must be rejected, every valid document (optional keys absent, nullable required keys null) accepted; non-trivial = deletion inside a nested/array/ref/branch object; distinct by sha256(schema,args,document)")
	c.Assume("R3", "R4", "reference oracle section 1.4")
	eval := runReplayEval(stdJudge)
	if c.RunReplay(eval) {
		return
	}
	c.Regressions(eval)
	prof := structuralProfile(c)
	prof.PRequired = 0.65
	o := docOpts(c)
	plan := &docPlan{NValid: 5, Kinds: map[string]bool{"required": true},
		NTMutant: func(m *docs.Mutant) bool {
			return m.Pos.Depth >= 2 || m.Pos.ViaRef || m.Pos.InArray > 0 || m.Pos.InBranch
		},
		NTValid: func(v jv.V) bool { return true }}
	runProperty(c, "run", c.N(300, 8000), 0, func(rt *rapid.T) *RunCase {
		f := genStructural(rt, c, prof)
		cs := caseOf(baseConfig(), []string{f.RelPath}, f)
		jobs := buildJobs(rt, c, f.Root, progRoot, plan, o, cs)
		for _, j := range jobs {
			if j.Expect == "reject" {
				for _, tag := range []string{"ref", "arr", "branch"} {
					if strings.Contains(j.Label, tag) {
						c.Count("reqdel." + tag)
					}
				}
				c.Count("reqdel.depth" + strings.Repeat("+", strings.Count(j.Rule, "/")-1))
			}
		}
		c.Sample(sampleOf(cs, jobs))
		return &RunCase{Case: cs, Jobs: jobs, Model: modelIfSingle(cs, f)}
	}, stdJudge)
}

func TestC03(t *testing.T) {
	c := core.New(t, "C03")
	defer c.Finish()
	c.Rule("programs from the structural profile; at every typed position of a valid document (property, array element at depth 1-2, typed additional-property value, through $ref, inside allOf/anyOf branches) one value of each other JSON type (string, integer, non-integral number, boolean, array, object) is substituted and must be rejected; null at every position whose type list contains null must be accepted and decode to nil/zero; non-trivial = substitution below the root level or through a $ref/array; distinct by sha256(schema,args,document)")
	c.Assume("R1 (1.0 is never sent to an integer position)", "R3", "R4", "R7 multi-type positions excluded", "reference oracle section 1.4")
	eval := runReplayEval(stdJudge)
	if c.RunReplay(eval) {
		return
	}
	c.Regressions(eval)
	prof := structuralProfile(c)
	prof.WAny = 0
	prof.WNull, prof.NullItems, prof.ArrayDepth = 2, true, 3
	o := docOpts(c)
	plan := &docPlan{NValid: 3, Kinds: map[string]bool{"type": true},
		Keep: func(m *docs.Mutant) bool {
			if m.Pos.InAddl && m.Pos.Node.Kind == model.KInteger && strings.HasSuffix(m.Label, "<-fraction") && c.Avoid("addprops.int_fraction") {
				c.ExcludedMap()["addprops.int_fraction"]++
				return false
			}
			return true
		},
		NTMutant: func(m *docs.Mutant) bool { return m.Pos.Depth >= 2 || m.Pos.ViaRef || m.Pos.InArray > 0 },
		NTValid:  func(v jv.V) bool { return true }}
	runProperty(c, "run", c.N(200, 5000), 0, func(rt *rapid.T) *RunCase {
		f := genStructural(rt, c, prof)
		if rapid.IntRange(0, 3).Draw(rt, "namecollision") == 0 {
			addNameCollision(rt, c, f)
		}
		if rapid.IntRange(0, 2).Draw(rt, "nullarrays") == 0 {
			addNullItemArrays(rt, c, f)
		}
		files := []*model.File{f}
		if rapid.IntRange(0, 3).Draw(rt, "samelocalref") == 0 {
			files = append(files, addSameLocalRefSibling(rt, c, f))
		}
		cs := caseOf(baseConfig(), []string{f.RelPath}, files...)
		jobs := buildJobs(rt, c, f.Root, progRoot, plan, o, cs)
		// explicit nulls at every nullable position of an all-present document
		oo := *o
		oo.AllProps, oo.NoNulls = true, true
		if v, ok := docs.Valid(rt, f.Root, &oo); ok {
			for _, p := range docs.Positions(f.Root, v) {
				if p.Orig == nil || !p.Orig.Nullable || p.Parent == nil {
					continue
				}
				if p.Node.Kind == model.KObject && len(p.Node.Props) > 0 && c.Avoid("nulls.nullable_object_with_properties") {
					c.ExcludedMap()["nulls.nullable_object_with_properties"]++
					continue
				}
				nd := p.Replace(jv.NullV())
				e := docs.Expect(f.Root, nd)
				jobs = append(jobs, core.Job{Type: progRoot, Op: "json", Doc: string(nd.Marshal()), Expect: "accept", ExpectVal: expJSON(e), Label: "null:" + p.Node.Kind.String()})
				c.Count("doc.null." + p.Node.Kind.String())
				c.NonTrivial(cs.Files[0].Text, string(nd.Marshal()))
			}
		}
		c.Sample(sampleOf(cs, jobs))
		return &RunCase{Case: cs, Jobs: jobs, Model: modelIfSingle(cs, f)}
	}, stdJudge)
}

// addNullItemArrays adds required arrays (nesting 1-4, at least one element per
// level) whose innermost items are of type null: only null is accepted there.
func addNullItemArrays(t *rapid.T, c *core.Ctx, f *model.File) {
	if f.Root.Kind != model.KObject {
		return
	}
	depth := rapid.IntRange(1, 4).Draw(t, "nullarrdepth")
	one := 1
	n := &model.Node{Kind: model.KNull}
	for i := 0; i < depth; i++ {
		n = &model.Node{Kind: model.KArray, Items: n, MinItems: &one}
	}
	name := fmt.Sprintf("znullarr%d", depth)
	f.Root.Props = append(f.Root.Props, model.Prop{Name: name, Node: n})
	f.Root.Required = append(f.Root.Required, name)
	c.Count(fmt.Sprintf("shape.null_items_depth%d", depth))
}

func TestC02(t *testing.T) {
	c := core.New(t, "C02")
	defer c.Finish()
	c.Rule("programs from the structural profile (nested objects/arrays, formats date/time/date-time/ipv4/ipv6, sized and unsized numbers, typed additionalProperties, refs, allOf/anyOf); per program 16 valid documents (all optional present, all absent, random subsets, nulls at nullable positions, boundary values, integers up to 2^53+2, 17-digit floats, multi-byte strings, additional keys); oracle: accepted; reflective dump walked with the model shows every declared value in the field whose json tag is that exact property name (ints exact, floats bit-for-bit, strings byte-for-byte, formats by value); json.Marshal output contains every non-empty declared value unchanged; additional-properties map holds exactly the undeclared keys; non-trivial = every valid document of a program with nesting; distinct by sha256(schema,args,document)")
	c.Assume("R2", "R3", "R4 (additional keys never case-fold onto declared keys or Go field names)", "R5 canonical format spellings", "reference oracle section 1.4")
	eval := runReplayEval(stdJudge)
	if c.RunReplay(eval) {
		return
	}
	c.Regressions(eval)
	prof := structuralProfile(c)
	prof.PFormat = 0.3
	o := docOpts(c)
	plan := &docPlan{NValid: 16, Remarshal: true, NTValid: func(v jv.V) bool { return true }}
	runProperty(c, "run", c.N(250, 6000), 0, func(rt *rapid.T) *RunCase {
		f := genStructural(rt, c, prof)
		cs := caseOf(baseConfig(), []string{f.RelPath}, f)
		jobs := buildJobs(rt, c, f.Root, progRoot, plan, o, cs)
		c.Sample(sampleOf(cs, jobs))
		return &RunCase{Case: cs, Jobs: jobs, Model: modelIfSingle(cs, f)}
	}, stdJudge)
}

// addNameCollision adds two object schemas that compete for one Go type name
// (nesting-depth concatenation: colx.yz vs colx_yz; or a definition named like
// <OtherDef><Property>) and declare the same property names with different
// types: the second one must not silently reuse the first one's struct.
func addNameCollision(t *rapid.T, c *core.Ctx, f *model.File) {
	kinds := []model.Kind{model.KString, model.KInteger, model.KBoolean, model.KNumber}
	perm := rapid.Permutation(kinds).Draw(t, "colkinds")
	leafObj := func(k model.Kind, ak model.Kind) *model.Node {
		return &model.Node{Kind: model.KObject, Props: []model.Prop{
			{Name: "id", Node: &model.Node{Kind: k}},
			{Name: "tags", Node: &model.Node{Kind: model.KArray, Items: &model.Node{Kind: ak}}},
		}, Required: []string{"id"}}
	}
	switch rapid.IntRange(0, 1).Draw(t, "colshape") {
	case 0:
		// properties.colx.properties.yz  vs  properties.colx_yz  -> both <Root>ColxYz
		a := &model.Node{Kind: model.KObject, Props: []model.Prop{{Name: "yz", Node: leafObj(perm[0], perm[1])}}, Required: []string{"yz"}}
		f.Root.Props = append(f.Root.Props, model.Prop{Name: "colx", Node: a}, model.Prop{Name: "colx_yz", Node: leafObj(perm[1], perm[0])})
		f.Root.Required = append(f.Root.Required, "colx", "colx_yz")
	default:
		// $defs.Colpet.properties.owner  vs  $defs.ColpetOwner
		owner := leafObj(perm[0], perm[1])
		pet := &model.Node{Kind: model.KObject, Props: []model.Prop{{Name: "owner", Node: owner}}, Required: []string{"owner"}}
		other := leafObj(perm[1], perm[0])
		f.Defs = append(f.Defs, model.Def{Name: "Colpet", Node: pet}, model.Def{Name: "ColpetOwner", Node: other})
		f.Root.Props = append(f.Root.Props,
			model.Prop{Name: "colpet", Node: &model.Node{Kind: model.KRef, Ref: "#/$defs/Colpet", Target: pet}},
			model.Prop{Name: "colother", Node: &model.Node{Kind: model.KRef, Ref: "#/$defs/ColpetOwner", Target: other}})
		f.Root.Required = append(f.Root.Required, "colpet", "colother")
	}
	c.Count("shape.name_collision")
}

// addSameLocalRefSibling: the main file and a sibling file (referenced as a whole)
// both contain "allOf": [{"$ref": "#/$defs/Base"}, ...] with their OWN definition
// Base, typed differently: a local reference must resolve inside its own document.
func addSameLocalRefSibling(t *rapid.T, c *core.Ctx, f *model.File) *model.File {
	kinds := rapid.Permutation([]model.Kind{model.KString, model.KInteger, model.KBoolean, model.KNumber}).Draw(t, "siblingkinds")
	mk := func(k model.Kind, ak model.Kind, extra string) (*model.Node, *model.Node) {
		base := &model.Node{Kind: model.KObject, Props: []model.Prop{
			{Name: "id", Node: &model.Node{Kind: k}},
			{Name: "tags", Node: &model.Node{Kind: model.KArray, Items: &model.Node{Kind: ak}}},
		}, Required: []string{"id"}}
		comp := &model.Node{Kind: model.KAllOf, Branches: []*model.Node{
			{Kind: model.KRef, Ref: "#/$defs/Base", Target: base},
			{Kind: model.KObject, Props: []model.Prop{{Name: extra, Node: &model.Node{Kind: model.KBoolean}}}},
		}}
		return base, comp
	}
	baseA, compA := mk(kinds[0], kinds[1], "qa")
	baseB, compB := mk(kinds[1], kinds[0], "qb")
	sib := &model.File{RelPath: "sibling.json", ID: "https://example.com/sibling",
		Root: &model.Node{Kind: model.KObject, Props: []model.Prop{{Name: "item", Node: compB}}, Required: []string{"item"}},
		Defs: []model.Def{{Name: "Base", Node: baseB}}}
	f.Defs = append(f.Defs, model.Def{Name: "Base", Node: baseA})
	f.Root.Props = append(f.Root.Props,
		model.Prop{Name: "ownitem", Node: compA},
		model.Prop{Name: "sibling", Node: &model.Node{Kind: model.KRef, Ref: "sibling.json", Target: sib.Root}})
	f.Root.Required = append(f.Root.Required, "ownitem", "sibling")
	c.Count("shape.same_local_ref_in_two_files")
	return sib
}
