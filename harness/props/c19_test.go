package props

import (
	"bytes"
	"encoding/base64"
	"fmt"
	"go/ast"
	"go/parser"
	"go/token"
	"strings"
	"testing"

	"pgregory.net/rapid"

	"verif/harness/batch"
	"verif/harness/core"
	"verif/harness/docs"
	"verif/harness/gen"
	"verif/harness/jv"
	"verif/harness/model"
)

// typedAddlTypes lists struct types with a typed AdditionalProperties map.
func typedAddlTypes(src string) map[string]bool {
	out := map[string]bool{}
	fset := token.NewFileSet()
	f, err := parser.ParseFile(fset, "gen.go", src, parser.SkipObjectResolution)
	if err != nil {
		return out
	}
	for _, d := range f.Decls {
		gd, ok := d.(*ast.GenDecl)
		if !ok || gd.Tok != token.TYPE {
			continue
		}
		for _, sp := range gd.Specs {
			ts := sp.(*ast.TypeSpec)
			st, ok := ts.Type.(*ast.StructType)
			if !ok {
				continue
			}
			for _, fld := range st.Fields.List {
				for _, nm := range fld.Names {
					if nm.Name == "AdditionalProperties" {
						if mt, ok := fld.Type.(*ast.MapType); ok && exprString(mt.Value) != "interface{}" {
							out[ts.Name.Name] = true
						}
					}
				}
			}
		}
	}
	return out
}

// methodTypes lists the types that have a generated UnmarshalJSON / UnmarshalYAML.
func methodTypes(src string) (jsonT, yamlT []string) {
	fset := token.NewFileSet()
	f, err := parser.ParseFile(fset, "gen.go", src, parser.SkipObjectResolution)
	if err != nil {
		return nil, nil
	}
	for _, d := range f.Decls {
		fd, ok := d.(*ast.FuncDecl)
		if !ok || fd.Recv == nil || len(fd.Recv.List) != 1 {
			continue
		}
		st, ok := fd.Recv.List[0].Type.(*ast.StarExpr)
		if !ok {
			continue
		}
		id, ok := st.X.(*ast.Ident)
		if !ok {
			continue
		}
		switch fd.Name.Name {
		case "UnmarshalJSON":
			jsonT = append(jsonT, id.Name)
		case "UnmarshalYAML":
			yamlT = append(yamlT, id.Name)
		}
	}
	return
}

var hostileDocs = [][]byte{
	[]byte(``), []byte(` `), []byte(`null`), []byte(`true`), []byte(`false`), []byte(`0`), []byte(`-1`), []byte(`1.5`), []byte(`1e999`), []byte(`-1e999`),
	[]byte(`99999999999999999999999999999999999999`), []byte(`""`), []byte(`"x"`), []byte(`"\u0000"`), []byte("\"\xff\xfe\""), []byte(`[]`), []byte(`[null]`),
	[]byte(`[1,2,3]`), []byte(`[[[[[[]]]]]]`), []byte(`{}`), []byte(`{"":null}`), []byte(`{"a":1,"a":2}`), []byte(`{"a":{"a":{"a":{"a":null}}}}`),
	[]byte(`{`), []byte(`}`), []byte(`[`), []byte(`{"a"`), []byte(`{"a":`), []byte(`{"a":1,}`), []byte(`{"a":1}x`), []byte(`{"a":1}{"b":2}`), []byte(`nul`), []byte(`tru`),
	[]byte(`{"a":1,"b":"two"}`), []byte(`{"a":"x","b":2}`), []byte(`{"cube":[[[1],[2]]]}`), []byte(`{"cube":[[[1],[2],[3]],[[4]]]}`), []byte(`[[[1],[2]]]`),
	[]byte(`'single'`), []byte("\x00"), []byte("\xef\xbb\xbf{}"), []byte(`{"a":1e400}`), []byte(`{"a":"\ud800"}`), []byte(`[{"k":null}]`), []byte(`{"k":[]}`),
	bytes.Repeat([]byte(`[`), 12000), append(bytes.Repeat([]byte(`{"a":`), 3000), append([]byte(`1`), bytes.Repeat([]byte(`}`), 3000)...)...),
	[]byte(`"` + strings.Repeat("a", 70000) + `"`),
}

func c19Judge(j *core.Job, r *batch.Result) (string, string) {
	if r.Skipped != "" {
		return "", ""
	}
	if r.Panic != nil || r.Crash != "" {
		return "panic:" + j.Op + ":" + j.Label, fmt.Sprintf("%s on type %s panicked (%s input): %s", j.Op, j.Type, j.Label, core.Clip(r.ErrText(), 500))
	}
	if r.PriorErr != nil {
		return "", "" // the prior document itself did not decode; not this check's subject
	}
	if r.Err != nil && !bytes.Equal(r.Dump, r.PriorDump) {
		return "partial:" + j.Op + ":" + j.Label, fmt.Sprintf("%s on type %s returned an error (%s) but changed the destination: before %s after %s", j.Op, j.Type, core.Clip(*r.Err, 150), core.Clip(string(r.PriorDump), 300), core.Clip(string(r.Dump), 300))
	}
	return "", ""
}

func TestC19(t *testing.T) {
	c := core.New(t, "C19")
	defer c.Finish()
	c.Rule("every type with a generated UnmarshalJSON (and UnmarshalYAML, programs generated with --extra-imports half of the time) in full-mix programs x inputs: a fixed list of 48 hostile byte strings (truncations, trailing garbage, invalid UTF-8, 1e999, NUL, duplicate keys, 12000-deep nesting, scalars/arrays/null at the root, 70 kB string), valid documents, every single-fault mutant family (wrong types, missing required, bounds, lengths, patterns, array lengths, enums) and random truncations of valid documents x prior destination in {zero value, value decoded from a valid document}; ops: json.Unmarshal, direct UnmarshalJSON call, UnmarshalYAML on a parsed node; oracle: no panic, and when an error is returned the reflective dump of the destination equals the dump taken before the call; non-trivial = call that returned an error on a non-zero prior value, or input of another shape than the type's; distinct by sha256(schema,type,op,input,prior)")
	c.Assume("a prior document that does not decode is not used", "YAML input that the YAML parser itself rejects never reaches the generated method")
	eval := runReplayEval(c19Judge)
	if c.RunReplay(eval) {
		return
	}
	c.Regressions(eval)
	prof := fullMixProfile(c)
	prof.HostileText = false
	prof.PDefault = 0.15
	o := docOpts(c)
	kinds := map[string]bool{"type": true, "required": true, "numeric": true, "string": true, "array": true, "enum": true}
	runProperty(c, "run", c.N(120, 3000), 0, func(rt *rapid.T) *RunCase {
		f := prof.File(rt, "prog.json")
		docs.AddDefaults(rt, f.Root, prof.PDefault, o, func(n *model.Node) bool { return defaultAllowed(c, n) })
		// shapes whose generated checks index into nested slices / decode into maps
		if rapid.Bool().Draw(rt, "cube") {
			lo, hi := 1, 3
			cube := &model.Node{Kind: model.KArray, MinItems: &lo, MaxItems: &hi, Items: &model.Node{Kind: model.KArray, MinItems: &lo, MaxItems: &hi,
				Items: &model.Node{Kind: model.KArray, MinItems: &lo, MaxItems: &hi, Items: &model.Node{Kind: model.KInteger}}}}
			f.Root.Props = append(f.Root.Props, model.Prop{Name: "cube", Node: cube})
			c.Count("shape.cube")
		}
		if rapid.Bool().Draw(rt, "anymap") {
			mapOf := func(k model.Kind) *model.Node {
				return &model.Node{Kind: model.KObject, Additional: &model.Additional{Schema: &model.Node{Kind: k}}}
			}
			f.Root.Props = append(f.Root.Props, model.Prop{Name: "anymap", Node: &model.Node{Kind: model.KAnyOf, Branches: []*model.Node{mapOf(model.KInteger), mapOf(model.KString)}}})
			c.Count("shape.anyof_map_branches")
		}
		if rapid.Bool().Draw(rt, "widemap") {
			// a definition with five declared properties and typed additional properties: a bad
			// additional value is met only after everything else has decoded
			wide := &model.Node{Kind: model.KObject, Additional: &model.Additional{Schema: &model.Node{Kind: rapid.SampledFrom([]model.Kind{model.KInteger, model.KString, model.KBoolean}).Draw(rt, "widemapkind")}}}
			for i := 0; i < 5; i++ {
				wide.Props = append(wide.Props, model.Prop{Name: fmt.Sprintf("w%d", i), Node: &model.Node{Kind: []model.Kind{model.KString, model.KInteger, model.KBoolean}[i%3]}})
			}
			f.Defs = append(f.Defs, model.Def{Name: "ZWide", Node: wide})
			f.Root.Props = append(f.Root.Props, model.Prop{Name: "zwide", Node: &model.Node{Kind: model.KRef, Ref: "#/$defs/ZWide", Target: wide}})
			c.Count("shape.wide_struct_with_typed_additional")
		}
		untypedString := rapid.Bool().Draw(rt, "untypedstring")
		if untypedString {
			// string keywords on properties that state no type: whatever the tool makes of them, a
			// value of any JSON type must be handled
			f.Root.Props = append(f.Root.Props,
				model.Prop{Name: "zuntypedlen", Node: &model.Node{Kind: model.KAny, Noise: []jv.KV{{K: "minLength", V: jv.IntV(3)}}}},
				model.Prop{Name: "zuntypedmax", Node: &model.Node{Kind: model.KAny, Noise: []jv.KV{{K: "maxLength", V: jv.IntV(2)}}}},
				model.Prop{Name: "zuntypedpat", Node: &model.Node{Kind: model.KAny, Noise: []jv.KV{{K: "pattern", V: jv.StrV("^[a-z]+$")}, {K: "minLength", V: jv.IntV(1)}}}})
			c.Count("shape.string_keywords_without_type")
		}
		if rapid.IntRange(0, 2).Draw(rt, "localnames") == 0 {
			// a type named like the local twin the methods declare (Plain): the method must not call itself
			addLocalIdentifierDefs(rt, c, f)
		}
		cfg := baseConfig()
		cfg.ExtraImports = rapid.Bool().Draw(rt, "extra")
		cs := caseOf(cfg, []string{f.RelPath}, f)
		countShapes(c, f, cs.Config)
		res := gen.Run(cs)
		if !res.OK() {
			c.Count("gen.rejected")
			return nil
		}
		jsonT, yamlT := methodTypes(res.Sources["-"])
		typedAddl := typedAddlTypes(res.Sources["-"])
		if len(jsonT) == 0 {
			c.Count("prog.no_methods")
			return nil
		}
		yamlSet := map[string]bool{}
		for _, y := range yamlT {
			yamlSet[y] = true
		}
		// inputs
		var inputs []struct {
			label string
			b     []byte
		}
		for i, h := range hostileDocs {
			inputs = append(inputs, struct {
				label string
				b     []byte
			}{fmt.Sprintf("hostile%d", i), h})
		}
		var validRoot *jv.V
		oo := *o
		oo.AllProps = true
		if v, ok := docs.Valid(rt, f.Root, &oo); ok {
			validRoot = &v
			text := v.Marshal()
			inputs = append(inputs, struct {
				label string
				b     []byte
			}{"valid", text})
			for k := 0; k < 3 && len(text) > 2; k++ {
				cut := rapid.IntRange(1, len(text)-1).Draw(rt, "cut")
				inputs = append(inputs, struct {
					label string
					b     []byte
				}{"truncated", text[:cut]})
			}
			// the empty string at every string position (format-typed ones first)
			var empties [][]byte
			for pass := 0; pass < 2; pass++ {
				for _, p := range docs.Positions(f.Root, v) {
					if p.Val.K != jv.Str || p.Val.S == "" || (pass == 0) != (p.Node.Format != "") || len(empties) >= 14 {
						continue
					}
					empties = append(empties, p.Replace(jv.StrV("")).Marshal())
				}
			}
			for _, e := range empties {
				inputs = append(inputs, struct {
					label string
					b     []byte
				}{"empty-string", e})
			}
			if untypedString && v.K == jv.Obj {
				for _, key := range []string{"zuntypedlen", "zuntypedmax", "zuntypedpat"} {
					for _, val := range []string{`12345`, `true`, `[1,"a"]`, `{"a":1}`, `"ab"`, `"ABCDEF"`, `null`, `1.5`} {
						inputs = append(inputs, struct {
							label string
							b     []byte
						}{"untyped-with-string-keywords", v.Set(key, jv.MustParse(val)).Marshal()})
					}
				}
			}
			muts, _ := docs.Mutants(rt, f.Root, v, kinds, &oo)
			for k := range muts {
				if k >= 40 {
					break
				}
				inputs = append(inputs, struct {
					label string
					b     []byte
				}{"fault:" + strings.SplitN(muts[k].Label, "<-", 2)[0], muts[k].Doc.Marshal()})
			}
		}
		var jobs []core.Job
		caseKey := cs.Files[0].Text
		for _, tn := range jsonT {
			priors := []string{""}
			if tn == progRoot && validRoot != nil {
				o2 := *o
				if pv, ok := docs.Valid(rt, f.Root, &o2); ok {
					priors = append(priors, string(pv.Marshal()))
				}
			} else if d := f.Def(tn); d != nil {
				if pv, ok := docs.Valid(rt, d, o); ok {
					priors = append(priors, string(pv.Marshal()))
				}
			}
			mine := inputs
			if d := f.Def(tn); d != nil && tn != progRoot {
				// every definition's type also gets a document that is valid for IT
				oo2 := *o
				oo2.AllProps = true
				if dv, ok := docs.Valid(rt, d, &oo2); ok {
					mine = append(append([]struct {
						label string
						b     []byte
					}{}, inputs...), struct {
						label string
						b     []byte
					}{"valid-for-definition", dv.Marshal()})
					if d.Kind == model.KObject && d.Additional != nil && d.Additional.Schema != nil && d.Additional.Schema.Kind != model.KAny && dv.K == jv.Obj {
						// everything declared is fine, one additional key has a value of another type
						bad := jv.ArrV(jv.ObjV())
						mine = append(mine, struct {
							label string
							b     []byte
						}{"bad-additional-value", dv.Set("zzbadextra", bad).Marshal()})
					}
				}
			}
			for _, in := range mine {
				if typedAddl[tn] && (string(in.b) == "null" || string(in.b) == "") && c.Avoid("addprops.null_input_panics") {
					c.ExcludedMap()["addprops.null_input_panics"]++
					continue
				}
				for _, prior := range priors {
					ops := []string{"json-method"}
					if strings.HasPrefix(in.label, "hostile") || in.label == "truncated" {
						ops = append(ops, "json")
					}
					if yamlSet[tn] {
						ops = append(ops, "yaml-node")
					}
					for _, op := range ops {
						jobs = append(jobs, core.Job{Type: tn, Op: op, Doc: base64.StdEncoding.EncodeToString(in.b), DocB64: true, Prior: prior, Expect: "any", Label: strings.TrimRight(in.label, "0123456789")})
						if prior != "" || tn != progRoot {
							c.NonTrivial(caseKey, tn, op, string(in.b[:min(len(in.b), 200)]), fmt.Sprint(len(in.b)), prior)
						}
					}
				}
			}
			c.Count("types.with_unmarshaler")
		}
		c.CountN("jobs", len(jobs))
		smp := sampleOf(cs, nil)
		smp["types"] = jsonT
		smp["n_jobs"] = len(jobs)
		c.Sample(smp)
		return &RunCase{Case: cs, Jobs: jobs}
	}, c19Judge)
}
