package verifrt

import _ "embed"

// Source is this package's runtime file, copied into every scratch module.
//
//go:embed rt.go
var Source []byte
