// Package verifrt is the tiny runtime linked into every E-run batch binary. It
// is copied verbatim into the scratch module; it is never produced by the tool.
package verifrt

import (
	"bufio"
	"encoding/base64"
	"encoding/json"
	"fmt"
	"net/netip"
	"os"
	"reflect"
	"runtime/debug"
	"sort"
	"strconv"
	"strings"
	"time"

	"gopkg.in/yaml.v3"
)

var registry = map[string]map[string]func() any{}

// Register is called from the init function of every generated package.
func Register(pkg string, ctors map[string]func() any) { registry[pkg] = ctors }

type job struct {
	ID     string `json:"id"`
	Pkg    string `json:"pkg"`
	Type   string `json:"type"`
	Op     string `json:"op"`
	Doc    string `json:"doc"`
	DocB64 bool   `json:"doc_b64"`
	Prior  string `json:"prior"`
}

type result struct {
	ID           string          `json:"id"`
	Err          *string         `json:"err"`
	Panic        *string         `json:"panic"`
	Skipped      string          `json:"skipped,omitempty"`
	Dump         json.RawMessage `json:"dump,omitempty"`
	PriorDump    json.RawMessage `json:"prior_dump,omitempty"`
	PriorErr     *string         `json:"prior_err,omitempty"`
	Remarshal    *string         `json:"remarshal"`
	RemarshalErr *string         `json:"remarshal_err"`
}

// Main reads jobs (one JSON per line) from the file named by argv[1] and
// writes one result line per job to the file named by argv[2].
func Main() {
	debug.SetMaxStack(256 << 20)
	in, err := os.Open(os.Args[1])
	if err != nil {
		fmt.Fprintln(os.Stderr, err)
		os.Exit(3)
	}
	out, err := os.Create(os.Args[2])
	if err != nil {
		fmt.Fprintln(os.Stderr, err)
		os.Exit(3)
	}
	w := bufio.NewWriterSize(out, 1<<16)
	sc := bufio.NewScanner(in)
	sc.Buffer(make([]byte, 1<<20), 1<<28)
	for sc.Scan() {
		line := sc.Bytes()
		if len(line) == 0 {
			continue
		}
		var j job
		if err := json.Unmarshal(line, &j); err != nil {
			fmt.Fprintln(os.Stderr, "bad job:", err)
			os.Exit(3)
		}
		// progress marker so that a fatal crash can be attributed
		fmt.Fprintf(w, "{\"start\":%q}\n", j.ID)
		w.Flush()
		r := run(&j)
		b, _ := json.Marshal(r)
		w.Write(b)
		w.WriteByte('\n')
		w.Flush()
	}
	w.Flush()
	out.Close()
}

func sp(s string) *string { return &s }

func run(j *job) (res result) {
	res.ID = j.ID
	ctors, ok := registry[j.Pkg]
	if !ok {
		res.Skipped = "no such package " + j.Pkg
		return
	}
	ctor, ok := ctors[j.Type]
	if !ok {
		res.Skipped = "no such type " + j.Type
		return
	}
	dst := ctor()
	doc := []byte(j.Doc)
	if j.DocB64 {
		b, err := base64.StdEncoding.DecodeString(j.Doc)
		if err != nil {
			res.Skipped = "bad base64"
			return
		}
		doc = b
	}
	if j.Prior != "" {
		var perr error
		func() {
			defer func() {
				if r := recover(); r != nil {
					res.Panic = sp(fmt.Sprintf("while decoding the prior document: %v\n%s", r, shortStack()))
				}
			}()
			perr = json.Unmarshal([]byte(j.Prior), dst)
		}()
		if res.Panic != nil {
			return
		}
		if perr != nil {
			res.PriorErr = sp(perr.Error())
			return
		}
	}
	res.PriorDump = dumpJSON(dst)
	func() {
		defer func() {
			if r := recover(); r != nil {
				res.Panic = sp(fmt.Sprintf("%v\n%s", r, shortStack()))
			}
		}()
		var err error
		switch j.Op {
		case "json":
			err = json.Unmarshal(doc, dst)
		case "json-method":
			u, ok := dst.(json.Unmarshaler)
			if !ok {
				res.Skipped = "no UnmarshalJSON"
				return
			}
			err = u.UnmarshalJSON(doc)
		case "yaml":
			err = yaml.Unmarshal(doc, dst)
		case "yaml-node":
			u, ok := dst.(yaml.Unmarshaler)
			if !ok {
				res.Skipped = "no UnmarshalYAML"
				return
			}
			var node yaml.Node
			if perr := yaml.Unmarshal(doc, &node); perr != nil {
				res.Skipped = "yaml parse: " + perr.Error()
				return
			}
			if node.Kind == yaml.DocumentNode && len(node.Content) == 1 {
				err = u.UnmarshalYAML(node.Content[0])
			} else {
				res.Skipped = "yaml: no document"
				return
			}
		default:
			res.Skipped = "bad op"
			return
		}
		if err != nil {
			res.Err = sp(err.Error())
		}
	}()
	res.Dump = dumpJSON(dst)
	if res.Err == nil && res.Panic == nil && res.Skipped == "" {
		func() {
			defer func() {
				if r := recover(); r != nil {
					res.RemarshalErr = sp(fmt.Sprintf("panic: %v", r))
				}
			}()
			b, err := json.Marshal(dst)
			if err != nil {
				res.RemarshalErr = sp(err.Error())
			} else {
				res.Remarshal = sp(string(b))
			}
		}()
	}
	return
}

func shortStack() string {
	lines := strings.Split(string(debug.Stack()), "\n")
	var keep []string
	for _, l := range lines {
		if strings.Contains(l, "verifbatch/") && !strings.Contains(l, "verifrt") {
			keep = append(keep, strings.TrimSpace(l))
			if len(keep) >= 6 {
				break
			}
		}
	}
	return strings.Join(keep, "\n")
}

func dumpJSON(v any) json.RawMessage {
	var sb strings.Builder
	func() {
		defer func() {
			if r := recover(); r != nil {
				sb.Reset()
				fmt.Fprintf(&sb, `{"$dumppanic":%q}`, fmt.Sprint(r))
			}
		}()
		dump(&sb, reflect.ValueOf(v).Elem(), 0)
	}()
	return json.RawMessage(sb.String())
}

var (
	timeType = reflect.TypeOf(time.Time{})
	addrType = reflect.TypeOf(netip.Addr{})
)

func q(s string) string {
	b, _ := json.Marshal(s)
	return string(b)
}

// dump renders a decoded value deterministically, keeping what json.Marshal
// hides (nil vs empty, exact ints, float bits, struct tags).
func dump(sb *strings.Builder, v reflect.Value, depth int) {
	if depth > 2000 {
		sb.WriteString(`{"$deep":true}`)
		return
	}
	t := v.Type()
	switch {
	case t == timeType:
		tm := v.Interface().(time.Time)
		_, off := tm.Zone()
		fmt.Fprintf(sb, `{"$time":%s,"off":%d,"zero":%v}`, q(tm.Format(time.RFC3339Nano)), off, tm.IsZero())
		return
	case t == addrType:
		a := v.Interface().(netip.Addr)
		fmt.Fprintf(sb, `{"$ip":%s,"valid":%v}`, q(a.String()), a.IsValid())
		return
	}
	if t.Kind() == reflect.Struct && t.NumField() == 1 && t.Field(0).Anonymous && t.Field(0).Type == timeType &&
		(t.Name() == "SerializableDate" || t.Name() == "SerializableTime") {
		tm := v.Field(0).Interface().(time.Time)
		layout := time.DateOnly
		if t.Name() == "SerializableTime" {
			layout = time.TimeOnly
		}
		fmt.Fprintf(sb, `{"$%s":%s,"full":%s,"zero":%v}`, t.Name(), q(tm.Format(layout)), q(tm.Format(time.RFC3339Nano)), tm.IsZero())
		return
	}
	switch t.Kind() {
	case reflect.Bool:
		fmt.Fprintf(sb, `{"$b":%v,"t":%s}`, v.Bool(), q(t.String()))
	case reflect.Int, reflect.Int8, reflect.Int16, reflect.Int32, reflect.Int64:
		fmt.Fprintf(sb, `{"$i":"%d","k":%s,"t":%s}`, v.Int(), q(t.Kind().String()), q(t.String()))
	case reflect.Uint, reflect.Uint8, reflect.Uint16, reflect.Uint32, reflect.Uint64, reflect.Uintptr:
		fmt.Fprintf(sb, `{"$i":"%d","k":%s,"t":%s}`, v.Uint(), q(t.Kind().String()), q(t.String()))
	case reflect.Float32, reflect.Float64:
		fmt.Fprintf(sb, `{"$f":%s,"t":%s}`, q(strconv.FormatFloat(v.Float(), 'g', -1, 64)), q(t.String()))
	case reflect.String:
		fmt.Fprintf(sb, `{"$s":%s,"t":%s}`, q(base64.StdEncoding.EncodeToString([]byte(v.String()))), q(t.String()))
	case reflect.Ptr:
		if v.IsNil() {
			sb.WriteString(`{"$nil":"ptr"}`)
			return
		}
		sb.WriteString(`{"$ptr":`)
		dump(sb, v.Elem(), depth+1)
		sb.WriteString(`}`)
	case reflect.Interface:
		if v.IsNil() {
			sb.WriteString(`{"$nil":"iface"}`)
			return
		}
		sb.WriteString(`{"$if":`)
		dump(sb, v.Elem(), depth+1)
		sb.WriteString(`}`)
	case reflect.Slice:
		if v.IsNil() {
			sb.WriteString(`{"$nil":"slice"}`)
			return
		}
		sb.WriteString(`{"$a":[`)
		for i := 0; i < v.Len(); i++ {
			if i > 0 {
				sb.WriteByte(',')
			}
			dump(sb, v.Index(i), depth+1)
		}
		sb.WriteString(`]}`)
	case reflect.Array:
		sb.WriteString(`{"$a":[`)
		for i := 0; i < v.Len(); i++ {
			if i > 0 {
				sb.WriteByte(',')
			}
			dump(sb, v.Index(i), depth+1)
		}
		sb.WriteString(`]}`)
	case reflect.Map:
		if v.IsNil() {
			sb.WriteString(`{"$nil":"map"}`)
			return
		}
		keys := v.MapKeys()
		type kv struct {
			k string
			v reflect.Value
		}
		kvs := make([]kv, 0, len(keys))
		for _, k := range keys {
			kvs = append(kvs, kv{fmt.Sprint(k.Interface()), v.MapIndex(k)})
		}
		sort.Slice(kvs, func(i, j int) bool { return kvs[i].k < kvs[j].k })
		sb.WriteString(`{"$m":[`)
		for i, e := range kvs {
			if i > 0 {
				sb.WriteByte(',')
			}
			sb.WriteString(`[` + q(e.k) + `,`)
			dump(sb, e.v, depth+1)
			sb.WriteString(`]`)
		}
		sb.WriteString(`]}`)
	case reflect.Struct:
		fmt.Fprintf(sb, `{"$t":%s,"f":[`, q(t.Name()))
		first := true
		for i := 0; i < t.NumField(); i++ {
			f := t.Field(i)
			if !f.IsExported() {
				continue
			}
			if !first {
				sb.WriteByte(',')
			}
			first = false
			fmt.Fprintf(sb, `{"go":%s,"tag":%s,"v":`, q(f.Name), q(string(f.Tag)))
			dump(sb, v.Field(i), depth+1)
			sb.WriteString(`}`)
		}
		sb.WriteString(`]}`)
	default:
		fmt.Fprintf(sb, `{"$other":%s}`, q(t.String()))
	}
}
