package direct

import (
	"encoding/json"
	"fmt"
	"math/big"
	"testing"

	"pgregory.net/rapid"

	"github.com/atombender/go-jsonschema/pkg/codegen"

	"verif/harness/core"
	"verif/harness/model"
	"verif/harness/oracle"
)

type intCase struct {
	Min    *float64 `json:"min"`
	Max    *float64 `json:"max"`
	ExMinB *bool    `json:"exmin_bool"`
	ExMinN *float64 `json:"exmin_num"`
	ExMaxB *bool    `json:"exmax_bool"`
	ExMaxN *float64 `json:"exmax_num"`
}

func (b *intCase) node() *model.Node {
	n := &model.Node{Kind: model.KInteger, Minimum: cp(b.Min), Maximum: cp(b.Max)}
	if b.ExMinB != nil {
		n.ExclMin = &model.Excl{IsBool: true, B: *b.ExMinB}
	} else if b.ExMinN != nil {
		n.ExclMin = &model.Excl{N: *b.ExMinN}
	}
	if b.ExMaxB != nil {
		n.ExclMax = &model.Excl{IsBool: true, B: *b.ExMaxB}
	} else if b.ExMaxN != nil {
		n.ExclMax = &model.Excl{N: *b.ExMaxN}
	}
	return n
}

func pow2(k uint) *big.Int { return new(big.Int).Lsh(big.NewInt(1), k) }

type goInt struct {
	name     string
	lo, hi   *big.Int
	unsigned bool
	bits     int
}

var goInts = func() []goInt {
	var out []goInt
	for _, b := range []uint{8, 16, 32, 64} {
		out = append(out, goInt{fmt.Sprintf("int%d", b), new(big.Int).Neg(pow2(b - 1)), new(big.Int).Sub(pow2(b-1), big.NewInt(1)), false, int(b)})
		out = append(out, goInt{fmt.Sprintf("uint%d", b), big.NewInt(0), new(big.Int).Sub(pow2(b), big.NewInt(1)), true, int(b)})
	}
	return out
}()

func goIntByName(n string) *goInt {
	for i := range goInts {
		if goInts[i].name == n {
			return &goInts[i]
		}
	}
	return nil
}

// remainingNode rebuilds the schema from the (possibly cleared) bound pointers
// after the call.
func remainingNode(min, max *float64, exMin, exMax *any) *model.Node {
	n := &model.Node{Kind: model.KInteger, Minimum: min, Maximum: max}
	conv := func(a *any) *model.Excl {
		if a == nil {
			return nil
		}
		switch v := (*a).(type) {
		case bool:
			return &model.Excl{IsBool: true, B: v}
		case float64:
			return &model.Excl{N: v}
		}
		return nil
	}
	n.ExclMin, n.ExclMax = conv(exMin), conv(exMax)
	return n
}

// bound is lo/hi of the admitted integer interval; nil = unbounded.
func admitted(n *model.Node) (lo, hi *big.Int) {
	ceil := func(r *big.Rat) *big.Int {
		q := new(big.Int).Div(r.Num(), r.Denom())
		if new(big.Rat).SetInt(q).Cmp(r) < 0 {
			q.Add(q, big.NewInt(1))
		}
		return q
	}
	floor := func(r *big.Rat) *big.Int { return new(big.Int).Div(r.Num(), r.Denom()) }
	raise := func(v *big.Int) {
		if lo == nil || v.Cmp(lo) > 0 {
			lo = v
		}
	}
	lower := func(v *big.Int) {
		if hi == nil || v.Cmp(hi) < 0 {
			hi = v
		}
	}
	rf := func(f float64) *big.Rat { return new(big.Rat).SetFloat64(f) }
	if n.Minimum != nil {
		r := rf(*n.Minimum)
		v := ceil(r)
		if n.ExclMin != nil && n.ExclMin.IsBool && n.ExclMin.B && new(big.Rat).SetInt(v).Cmp(r) == 0 {
			v.Add(v, big.NewInt(1))
		}
		raise(v)
	}
	if n.Maximum != nil {
		r := rf(*n.Maximum)
		v := floor(r)
		if n.ExclMax != nil && n.ExclMax.IsBool && n.ExclMax.B && new(big.Rat).SetInt(v).Cmp(r) == 0 {
			v.Sub(v, big.NewInt(1))
		}
		lower(v)
	}
	if n.ExclMin != nil && !n.ExclMin.IsBool {
		r := rf(n.ExclMin.N)
		v := floor(r)
		v.Add(v, big.NewInt(1))
		raise(v)
	}
	if n.ExclMax != nil && !n.ExclMax.IsBool {
		r := rf(n.ExclMax.N)
		v := ceil(r)
		v.Sub(v, big.NewInt(1))
		lower(v)
	}
	return lo, hi
}

func evalIntType(b *intCase) (failed bool, msg string) {
	min, max := cp(b.Min), cp(b.Max)
	exMin, exMax := anyPtr(b.ExMinB, b.ExMinN), anyPtr(b.ExMaxB, b.ExMaxN)
	t, err := codegen.PrimitiveTypeFromJSONSchemaType("integer", "", false, true, &min, &max, &exMin, &exMax)
	if err != nil {
		return true, "PrimitiveTypeFromJSONSchemaType returned an error: " + err.Error()
	}
	pt, ok := t.(codegen.PrimitiveType)
	if !ok {
		return true, fmt.Sprintf("unexpected type %T", t)
	}
	gt := goIntByName(pt.Type)
	if gt == nil {
		return true, "unexpected Go type " + pt.Type
	}
	orig := b.node()
	lo, hi := admitted(orig)
	desc := fmt.Sprintf("chosen %s; admitted interval [%v, %v]", pt.Type, lo, hi)
	nonEmpty := lo == nil || hi == nil || lo.Cmp(hi) <= 0
	if nonEmpty && lo != nil && hi != nil {
		// (1) representable
		if lo.Cmp(gt.lo) < 0 || hi.Cmp(gt.hi) > 0 {
			// only a violation when some Go integer type could hold the interval
			for _, cand := range goInts {
				if lo.Cmp(cand.lo) >= 0 && hi.Cmp(cand.hi) <= 0 {
					return true, desc + ": the type cannot represent every admitted integer"
				}
			}
		}
		// (2) narrowest of its family
		wantUnsigned := lo.Sign() >= 0
		var want *goInt
		for i := range goInts {
			cand := &goInts[i]
			if cand.unsigned != wantUnsigned {
				continue
			}
			if lo.Cmp(cand.lo) >= 0 && hi.Cmp(cand.hi) <= 0 {
				want = cand
				break
			}
		}
		if want != nil && want.name != gt.name {
			return true, desc + ": not the narrowest type that can (" + want.name + ")"
		}
	}
	// (3) a bound disappears only when the type implies it: remaining bounds ∩ type range == original set
	rem := remainingNode(min, max, exMin, exMax)
	probe := func(x *big.Int) (bool, string) {
		r := new(big.Rat).SetInt(x)
		want := oracle.NumericAccepts(orig, r)
		inType := x.Cmp(gt.lo) >= 0 && x.Cmp(gt.hi) <= 0
		got := inType && oracle.NumericAccepts(rem, r)
		if want && !inType {
			// unrepresentable admitted value: only reportable when a wider type exists (covered by (1))
			return false, ""
		}
		if got != want {
			return true, fmt.Sprintf("%s: integer %v is admitted by the schema=%v but by (type range AND remaining bounds)=%v", desc, x, want, got)
		}
		return false, ""
	}
	var pts []*big.Int
	addAround := func(v *big.Int) {
		for d := int64(-2); d <= 2; d++ {
			pts = append(pts, new(big.Int).Add(v, big.NewInt(d)))
		}
	}
	for _, f := range []*float64{b.Min, b.Max, b.ExMinN, b.ExMaxN} {
		if f != nil {
			r := new(big.Rat).SetFloat64(*f)
			addAround(new(big.Int).Div(r.Num(), r.Denom()))
		}
	}
	addAround(gt.lo)
	addAround(gt.hi)
	addAround(big.NewInt(0))
	for _, x := range pts {
		if f, m := probe(x); f {
			return true, m
		}
	}
	return false, ""
}

// exclAt64 reports an exclusive bound whose constant is a 64-bit limit
// (+-2^63, 2^64): +-1 is not representable in float64 there.
func exclAt64(b *intCase) bool {
	big64 := func(f *float64) bool {
		return f != nil && (*f >= 9223372036854775808.0 || *f <= -9223372036854775808.0)
	}
	if big64(b.ExMinN) || big64(b.ExMaxN) {
		return true
	}
	if b.ExMinB != nil && *b.ExMinB && big64(b.Min) {
		return true
	}
	if b.ExMaxB != nil && *b.ExMaxB && big64(b.Max) {
		return true
	}
	return false
}

func TestC15Direct(t *testing.T) {
	c := core.New(t, "C15")
	defer c.Finish()
	if !c.ReplayIsFor("inttype") {
		return
	}
	c.Rule("PrimitiveTypeFromJSONSchemaType(integer, minIntSize): exhaustive over a 13-constant subset of the 8/16/32/64-bit signed and unsigned limits x all keyword forms (absent/number for minimum and maximum; absent/true/false/number for the exclusives), plus rapid draws over 36 constants on, next to and between the limits; reference computes the admitted integer interval exactly (big integers) and requires: chosen type holds the interval, is the narrowest signed (lo<0) or unsigned (lo>=0) type that does, and for every probe integer on and next to each bound, each type limit and zero: 'schema admits x' == 'x in type range AND remaining bounds admit x'; non-trivial = a bound within 1 of a type limit or exactly one of the two bounds removable")
	c.Assume("R2: schema bounds are exactly representable float64 values (|v| <= 2^53 or +-2^k)")
	eval := func(r *core.Replay) (bool, string, error) {
		if r.Check != "inttype" {
			return false, "", nil
		}
		var b intCase
		if err := json.Unmarshal(r.Direct, &b); err != nil {
			return false, "", err
		}
		f, m := evalIntType(&b)
		return f, m, nil
	}
	if c.RunReplay(eval) {
		return
	}
	c.Regressions(eval)
	report := func(b *intCase, msg string) {
		d, _ := json.Marshal(b)
		c.Violation("inttype", msg, &core.Replay{Check: "inttype", Direct: d, Expected: "narrowest representing type; bounds dropped only when implied", Observed: msg})
	}
	p := func(k uint) float64 { f, _ := new(big.Float).SetInt(pow2(k)).Float64(); return f }
	small := []float64{-p(31), -p(15), -129, -128, -1, 0, 1, 127, 128, 255, 256, p(16), p(32)}
	all := []float64{-p(63), -p(31) - 1, -p(31), -p(31) + 1, -p(15) - 1, -p(15), -p(15) + 1, -129, -128, -127, -2, -1, 0, 1, 2, 126, 127, 128, 254, 255, 256,
		p(15) - 1, p(15), p(15) + 1, p(16) - 1, p(16), p(16) + 1, p(31) - 1, p(31), p(31) + 1, p(32) - 1, p(32), p(32) + 1, p(53), p(63), p(64)}
	mk := func(cs []float64, mi, ma, em, ex int) intCase {
		var b intCase
		if mi > 0 {
			b.Min = fp(cs[mi-1])
		}
		if ma > 0 {
			b.Max = fp(cs[ma-1])
		}
		switch {
		case em == 1:
			b.ExMinB = bp(true)
		case em == 2:
			b.ExMinB = bp(false)
		case em > 2:
			b.ExMinN = fp(cs[em-3])
		}
		switch {
		case ex == 1:
			b.ExMaxB = bp(true)
		case ex == 2:
			b.ExMaxB = bp(false)
		case ex > 2:
			b.ExMaxN = fp(cs[ex-3])
		}
		return b
	}
	if c.Shard == 0 {
		n := 0
		for mi := 0; mi <= len(small); mi++ {
			for ma := 0; ma <= len(small); ma++ {
				for em := 0; em <= len(small)+2; em++ {
					for ex := 0; ex <= len(small)+2; ex++ {
						b := mk(small, mi, ma, em, ex)
						n++
						c.NonTrivial(fmt.Sprint("g", mi, ma, em, ex))
						if failed, msg := evalIntType(&b); failed {
							bb := b
							report(&bb, msg)
							if c.NumViolations() >= 3 {
								goto done
							}
						}
					}
				}
			}
		}
	done:
		c.Eval(n)
		c.CountN("grid.cases", n)
		c.Exhaustive(true)
		c.Sample(map[string]any{"grid_constants": small, "forms": "min,max: absent|c; exclusives: absent|true|false|c"})
	}
	var last *intCase
	var lastMsg string
	res := c.Rapid("inttype", c.N(30000, 1000000), 7, func(rt *rapid.T) {
		b := mk(all, rapid.IntRange(0, len(all)).Draw(rt, "mi"), rapid.IntRange(0, len(all)).Draw(rt, "ma"),
			rapid.IntRange(0, len(all)+2).Draw(rt, "em"), rapid.IntRange(0, len(all)+2).Draw(rt, "ex"))
		if exclAt64(&b) && c.Avoid("ints.exclusive_bound_at_64bit_limit") {
			c.ExcludedMap()["ints.exclusive_bound_at_64bit_limit"]++
			return
		}
		c.Eval(1)
		d, _ := json.Marshal(&b)
		c.NonTrivial(string(d))
		if c.Shard == 0 {
			c.Sample(&b)
		}
		if failed, msg := evalIntType(&b); failed {
			bb := b
			last, lastMsg = &bb, msg
			rt.Fatalf("%s", msg)
		}
	})
	if res.Failed {
		if last != nil {
			report(last, lastMsg)
		} else {
			c.Infra("rapid failed without a case: " + core.Clip(res.Msg, 300))
		}
	}
}
