// Package direct holds the E-direct checks: rapid / exhaustive properties
// against exported functions of the tool. Kept apart from ./props so that an
// API change in these functions cannot break the build of the other checks.
package direct

import (
	"encoding/json"
	"fmt"
	"math"
	"math/big"
	"testing"

	"pgregory.net/rapid"

	"github.com/atombender/go-jsonschema/pkg/mathutils"

	"verif/harness/core"
	"verif/harness/model"
	"verif/harness/oracle"
)

// boundsCase is one NormalizeBounds input in serialisable form.
type boundsCase struct {
	Min     *float64 `json:"min"`
	Max     *float64 `json:"max"`
	ExMinB  *bool    `json:"exmin_bool"`
	ExMinN  *float64 `json:"exmin_num"`
	ExMaxB  *bool    `json:"exmax_bool"`
	ExMaxN  *float64 `json:"exmax_num"`
	Probe   float64  `json:"probe"`
	Integer bool     `json:"integer"`
}

func (b *boundsCase) node() *model.Node {
	n := &model.Node{Kind: model.KNumber, Minimum: b.Min, Maximum: b.Max}
	if b.ExMinB != nil {
		n.ExclMin = &model.Excl{IsBool: true, B: *b.ExMinB}
	} else if b.ExMinN != nil {
		n.ExclMin = &model.Excl{N: *b.ExMinN}
	}
	if b.ExMaxB != nil {
		n.ExclMax = &model.Excl{IsBool: true, B: *b.ExMaxB}
	} else if b.ExMaxN != nil {
		n.ExclMax = &model.Excl{N: *b.ExMaxN}
	}
	return n
}

func anyPtr(b *bool, n *float64) *any {
	if b != nil {
		var a any = *b
		return &a
	}
	if n != nil {
		var a any = *n
		return &a
	}
	return nil
}

func cp(f *float64) *float64 {
	if f == nil {
		return nil
	}
	v := *f
	return &v
}

// passesNormalized: x passes the tuple NormalizeBounds returned (nil = no bound).
func passesNormalized(x float64, nMin, nMax *float64, exMin, exMax bool) bool {
	if nMin != nil {
		if x < *nMin || (exMin && x == *nMin) {
			return false
		}
	}
	if nMax != nil {
		if x > *nMax || (exMax && x == *nMax) {
			return false
		}
	}
	return true
}

// evalBounds compares "x passes the normalised tuple" with "x passes every
// stated keyword" (the intersection rule of the statement).
func evalBounds(b *boundsCase) (failed bool, msg string) {
	nMin, nMax, exMin, exMax := mathutils.NormalizeBounds(cp(b.Min), cp(b.Max), anyPtr(b.ExMinB, b.ExMinN), anyPtr(b.ExMaxB, b.ExMaxN))
	got := passesNormalized(b.Probe, nMin, nMax, exMin, exMax)
	want := oracle.NumericAccepts(b.node(), new(big.Rat).SetFloat64(b.Probe))
	if got != want {
		f := func(p *float64) string {
			if p == nil {
				return "nil"
			}
			return fmt.Sprint(*p)
		}
		return true, fmt.Sprintf("NormalizeBounds -> (min %s, max %s, exMin %v, exMax %v): value %v passes=%v, but the stated keywords say %v", f(nMin), f(nMax), exMin, exMax, b.Probe, got, want)
	}
	return false, ""
}

func fp(f float64) *float64 { return &f }
func bp(b bool) *bool       { return &b }

func TestC05Direct(t *testing.T) {
	c := core.New(t, "C05")
	defer c.Finish()
	c.Rule("NormalizeBounds: exhaustive over presence/kind of the four keywords (absent/number, absent/true/false/number for the exclusives) x constants from a 5-point grid (every equality pattern) x probe values on, next to and between the grid points, plus rapid-drawn float constants; oracle: 'x passes the normalised tuple' == 'x passes every stated keyword'; non-trivial = probe within one step of a stated bound or a tie between two stated bounds")
	c.Assume("interval semantics of the C05 statement (exclusive wins a tie; a boolean exclusive without its sibling constrains nothing)")
	eval := func(r *core.Replay) (bool, string, error) {
		if r.Check != "normalize" {
			return false, "", nil
		}
		var b boundsCase
		if err := json.Unmarshal(r.Direct, &b); err != nil {
			return false, "", err
		}
		f, m := evalBounds(&b)
		return f, m, nil
	}
	if !c.ReplayIsFor("normalize") {
		return // belongs to the E-run half
	}
	if c.RunReplay(eval) {
		return
	}
	c.Regressions(eval)

	report := func(b *boundsCase, msg string) {
		d, _ := json.Marshal(b)
		c.Violation("normalize", msg, &core.Replay{Check: "normalize", Direct: d, Expected: "normalised bounds admit exactly the values every stated keyword admits", Observed: msg})
	}
	// exhaustive grid (shard 0 only; it is cheap)
	if c.Shard == 0 {
		grid := []float64{-1, 0, 1, 2, 3}
		probes := []float64{-1.5, -1, -0.5, 0, 0.5, 1, 1.5, 2, 2.5, 3, 3.5}
		optN := func(i int) *float64 { // 0 = absent
			if i == 0 {
				return nil
			}
			return fp(grid[i-1])
		}
		n := 0
		for mi := 0; mi <= len(grid); mi++ {
			for ma := 0; ma <= len(grid); ma++ {
				for em := 0; em <= len(grid)+2; em++ { // 0 absent, 1 true, 2 false, 3.. numbers
					for ex := 0; ex <= len(grid)+2; ex++ {
						b := boundsCase{Min: optN(mi), Max: optN(ma)}
						switch {
						case em == 1:
							b.ExMinB = bp(true)
						case em == 2:
							b.ExMinB = bp(false)
						case em > 2:
							b.ExMinN = fp(grid[em-3])
						}
						switch {
						case ex == 1:
							b.ExMaxB = bp(true)
						case ex == 2:
							b.ExMaxB = bp(false)
						case ex > 2:
							b.ExMaxN = fp(grid[ex-3])
						}
						for _, x := range probes {
							b.Probe = x
							n++
							tie := (b.Min != nil && b.ExMinN != nil && *b.Min == *b.ExMinN) || (b.Max != nil && b.ExMaxN != nil && *b.Max == *b.ExMaxN)
							if tie {
								c.Count("grid.tie")
							}
							c.NonTrivial(fmt.Sprint(mi, ma, em, ex, x))
							if failed, msg := evalBounds(&b); failed {
								bb := b
								report(&bb, msg)
								if c.NumViolations() >= 3 {
									goto done
								}
							}
						}
					}
				}
			}
		}
	done:
		c.Eval(n)
		c.Count("grid.exhaustive_cases")
		c.CountN("grid.comparisons", n)
		c.Exhaustive(true)
		c.Sample(map[string]any{"grid": grid, "probes": probes, "keyword_forms": "min,max: absent|grid; exclusives: absent|true|false|grid"})
	}
	// random floats
	var last *boundsCase
	var lastMsg string
	fl := rapid.OneOf(rapid.Float64Range(-1e6, 1e6), rapid.SampledFrom([]float64{0, -0.0, 1, -1, 0.1, 1e-9, 1e15, -1e15, math.MaxInt32, math.MinInt32, 9007199254740992}))
	res := c.Rapid("normalize", c.N(20000, 400000), 5, func(rt *rapid.T) {
		var b boundsCase
		vals := rapid.SliceOfN(fl, 1, 3).Draw(rt, "consts")
		pick := func(l string) float64 { return vals[rapid.IntRange(0, len(vals)-1).Draw(rt, l)] }
		if rapid.Bool().Draw(rt, "hasmin") {
			b.Min = fp(pick("min"))
		}
		if rapid.Bool().Draw(rt, "hasmax") {
			b.Max = fp(pick("max"))
		}
		switch rapid.IntRange(0, 3).Draw(rt, "exmin") {
		case 1:
			b.ExMinB = bp(rapid.Bool().Draw(rt, "exminb"))
		case 2, 3:
			b.ExMinN = fp(pick("exminn"))
		}
		switch rapid.IntRange(0, 3).Draw(rt, "exmax") {
		case 1:
			b.ExMaxB = bp(rapid.Bool().Draw(rt, "exmaxb"))
		case 2, 3:
			b.ExMaxN = fp(pick("exmaxn"))
		}
		base := pick("probebase")
		switch rapid.IntRange(0, 3).Draw(rt, "probekind") {
		case 0:
			b.Probe = base
		case 1:
			b.Probe = math.Nextafter(base, math.Inf(1))
		case 2:
			b.Probe = math.Nextafter(base, math.Inf(-1))
		default:
			b.Probe = fl.Draw(rt, "probe")
		}
		c.Eval(1)
		d, _ := json.Marshal(&b)
		c.NonTrivial(string(d))
		if c.Shard == 0 {
			c.Sample(&b)
		}
		if failed, msg := evalBounds(&b); failed {
			bb := b
			last, lastMsg = &bb, msg
			rt.Fatalf("%s", msg)
		}
	})
	if res.Failed {
		if last != nil {
			report(last, lastMsg)
		} else {
			c.Infra("rapid failed without a case: " + core.Clip(res.Msg, 300))
		}
	}
}
