// Package oracle is the reference validator: the JSON-Schema meaning of exactly
// the supported keywords, over the typed model, with exact arithmetic. It is
// written from the property statements and shares no code with the tool.
package oracle

import (
	"fmt"
	"math/big"
	"regexp"
	"sync"
	"unicode/utf8"

	"verif/harness/jv"
	"verif/harness/model"
)

type Violation struct {
	Rule string // type, required, minimum, maximum, exclusiveMinimum, exclusiveMaximum, multipleOf, minLength, maxLength, pattern, minItems, maxItems, enum, anyOf, additional, ambiguous-int, null
	Path string
}

func (v Violation) String() string { return v.Rule + "@" + v.Path }

var (
	reMu    sync.Mutex
	reCache = map[string]*regexp.Regexp{}
)

func compile(p string) *regexp.Regexp {
	reMu.Lock()
	defer reMu.Unlock()
	if r, ok := reCache[p]; ok {
		return r
	}
	r := regexp.MustCompile(p)
	reCache[p] = r
	return r
}

func ratOf(f float64) *big.Rat {
	r := new(big.Rat)
	r.SetFloat64(f)
	return r
}

// Validate returns every violation of n by v (empty = accepted).
func Validate(n *model.Node, v jv.V) []Violation {
	var out []Violation
	validate(n, v, "", &out, 0)
	return out
}

func Accepts(n *model.Node, v jv.V) bool { return len(Validate(n, v)) == 0 }

func validate(n *model.Node, v jv.V, path string, out *[]Violation, depth int) {
	if n == nil || depth > 400 {
		return
	}
	add := func(rule string) { *out = append(*out, Violation{rule, path}) }
	switch n.Kind {
	case model.KAny:
		return
	case model.KRef:
		validate(n.Target, v, path, out, depth+1)
		return
	case model.KAllOf:
		for _, b := range n.Branches {
			validate(b, v, path, out, depth+1)
		}
		return
	case model.KAnyOf:
		for _, b := range n.Branches {
			var sub []Violation
			validate(b, v, path, &sub, depth+1)
			if len(sub) == 0 {
				return
			}
		}
		add("anyOf")
		return
	}
	if v.K == jv.Null {
		if n.Nullable || n.Kind == model.KNull {
			return
		}
		if n.Kind == model.KEnum {
			for _, m := range n.EnumVals {
				if m.K == jv.Null {
					return
				}
			}
			add("enum")
			return
		}
		add("null")
		return
	}
	switch n.Kind {
	case model.KNull:
		add("type")
	case model.KBoolean:
		if v.K != jv.Bool {
			add("type")
		}
	case model.KString:
		if v.K != jv.Str {
			add("type")
			return
		}
		rc := utf8.RuneCountInString(v.S)
		if n.MinLength != nil && rc < *n.MinLength {
			add("minLength")
		}
		if n.MaxLength != nil && rc > *n.MaxLength {
			add("maxLength")
		}
		if n.Pattern != "" && !compile(n.Pattern).MatchString(v.S) {
			add("pattern")
		}
	case model.KInteger, model.KNumber:
		if v.K != jv.Num {
			add("type")
			return
		}
		x := jv.Rat(v.N)
		if !jv.IsIntLiteral(v.N) {
			// R2: a non-integer literal denotes the float64 it decodes to, exactly as the
			// schema's own numbers do (both are read through float64); comparing the
			// decimal text of one side with the binary value of the other would invent
			// differences of half an ulp
			x = ratOf(jv.Float64(v.N))
		}
		if n.Kind == model.KInteger && !jv.IsIntLiteral(v.N) {
			if x.IsInt() {
				add("ambiguous-int")
			} else {
				add("type")
			}
			return
		}
		numeric(n, x, add)
	case model.KArray:
		if v.K != jv.Arr {
			add("type")
			return
		}
		if n.MinItems != nil && len(v.A) < *n.MinItems {
			add("minItems")
		}
		if n.MaxItems != nil && len(v.A) > *n.MaxItems {
			add("maxItems")
		}
		if n.Items != nil {
			for i, e := range v.A {
				validate(n.Items, e, fmt.Sprintf("%s/%d", path, i), out, depth+1)
			}
		}
	case model.KObject:
		if v.K != jv.Obj {
			add("type")
			return
		}
		for _, r := range n.Required {
			p := n.Prop(r)
			if p != nil && p.Default != nil {
				continue
			}
			if !v.Has(r) {
				*out = append(*out, Violation{"required", path + "/" + r})
			}
		}
		for _, kv := range v.O {
			p := n.Prop(kv.K)
			if p != nil {
				if kv.V.K == jv.Null && p.Default != nil {
					continue // C09: a null defaulted property takes its default
				}
				if kv.V.K == jv.Null {
					// R3: null at a declared position is accepted when the schema names
					// null; elsewhere it is not a generated input.
					rp := p.Resolve()
					if rp != nil && !(rp.Nullable || rp.Kind == model.KNull || rp.Kind == model.KAny || rp.Kind == model.KEnum) {
						*out = append(*out, Violation{"null", path + "/" + kv.K})
					} else {
						validate(p, kv.V, path+"/"+kv.K, out, depth+1)
					}
					continue
				}
				validate(p, kv.V, path+"/"+kv.K, out, depth+1)
				continue
			}
			if n.Additional != nil {
				if n.Additional.False {
					*out = append(*out, Violation{"additional", path + "/" + kv.K})
				} else {
					validate(n.Additional.Schema, kv.V, path+"/"+kv.K, out, depth+1)
				}
			}
		}
	case model.KEnum:
		for _, m := range n.EnumVals {
			if jv.Equal(m, v) {
				return
			}
		}
		add("enum")
	}
}

// numeric applies the interval and multipleOf semantics of C05.
func numeric(n *model.Node, x *big.Rat, add func(string)) {
	if n.Minimum != nil {
		m := ratOf(*n.Minimum)
		strict := n.ExclMin != nil && n.ExclMin.IsBool && n.ExclMin.B
		c := x.Cmp(m)
		if c < 0 || (strict && c == 0) {
			add("minimum")
		}
	}
	if n.Maximum != nil {
		m := ratOf(*n.Maximum)
		strict := n.ExclMax != nil && n.ExclMax.IsBool && n.ExclMax.B
		c := x.Cmp(m)
		if c > 0 || (strict && c == 0) {
			add("maximum")
		}
	}
	if n.ExclMin != nil && !n.ExclMin.IsBool {
		if x.Cmp(ratOf(n.ExclMin.N)) <= 0 {
			add("exclusiveMinimum")
		}
	}
	if n.ExclMax != nil && !n.ExclMax.IsBool {
		if x.Cmp(ratOf(n.ExclMax.N)) >= 0 {
			add("exclusiveMaximum")
		}
	}
	if n.MultipleOf != nil {
		q := new(big.Rat).Quo(x, ratOf(*n.MultipleOf))
		if !q.IsInt() {
			add("multipleOf")
		}
	}
}

// NumericAccepts is the interval/multipleOf verdict alone (used by C05/C15
// direct checks).
func NumericAccepts(n *model.Node, x *big.Rat) bool {
	ok := true
	numeric(n, x, func(string) { ok = false })
	return ok
}
