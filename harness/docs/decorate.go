package docs

import (
	"pgregory.net/rapid"

	"verif/harness/model"
)

// AddDefaults walks n and gives property schemas a default valid for them with
// probability p (kinds filter: nil = all generatable kinds).
func AddDefaults(t *rapid.T, n *model.Node, p float64, o *Opts, allow func(prop *model.Node) bool) {
	model.Walk(n, func(x *model.Node) {
		if x.Kind != model.KObject {
			return
		}
		for _, pr := range x.Props {
			c := pr.Node
			if c.Default != nil {
				continue
			}
			if allow != nil && !allow(c) {
				continue
			}
			if rapid.IntRange(0, 999).Draw(t, "hasdefault") >= int(p*1000) {
				continue
			}
			oo := Opts{}
			if o != nil {
				oo = *o
			}
			oo.NoNulls = true
			v, ok := Valid(t, c, &oo)
			if !ok {
				continue
			}
			c.Default = &v
		}
	})
}
