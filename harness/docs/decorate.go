package docs

import (
	"pgregory.net/rapid"

	"verif/harness/jv"
	"verif/harness/model"
)

// AddDefaults walks n and gives property schemas a default valid for them with
// probability p (kinds filter: nil = all generatable kinds).
func AddDefaults(t *rapid.T, n *model.Node, p float64, o *Opts, allow func(prop *model.Node) bool) {
	model.Walk(n, func(x *model.Node) {
		if x.Kind != model.KObject {
			return
		}
		for _, pr := range x.Props {
			c := pr.Node
			if c.Default != nil {
				continue
			}
			if allow != nil && !allow(c) {
				continue
			}
			if rapid.IntRange(0, 999).Draw(t, "hasdefault") >= int(p*1000) {
				continue
			}
			oo := Opts{}
			if o != nil {
				oo = *o
			}
			oo.NoNulls = true
			v, ok := Valid(t, c, &oo)
			if !ok || !Float64Exact(v) {
				// R2: schema numbers are exactly representable in float64
				continue
			}
			c.Default = &v
		}
	})
}

// Float64Exact reports whether every number in v is exactly a float64 (R2 for
// numbers that appear in a schema).
func Float64Exact(v jv.V) bool {
	switch v.K {
	case jv.Num:
		_, exact := jv.Rat(v.N).Float64()
		return exact
	case jv.Arr:
		for _, e := range v.A {
			if !Float64Exact(e) {
				return false
			}
		}
	case jv.Obj:
		for _, kv := range v.O {
			if !Float64Exact(kv.V) {
				return false
			}
		}
	}
	return true
}
