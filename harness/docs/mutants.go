package docs

import (
	"fmt"
	"strings"

	"pgregory.net/rapid"

	"verif/harness/jv"
	"verif/harness/model"
	"verif/harness/oracle"
	"verif/harness/sgen"
)

// Position is one schema-governed value inside a document.
type Position struct {
	Node     *model.Node // resolved node governing the value
	Orig     *model.Node // node as written (may be a ref)
	Val      jv.V
	Path     string
	Depth    int
	ViaRef   bool
	InArray  int // array nesting depth of this position
	InAddl   bool
	InBranch bool
	Parent   *model.Node // object node when the position is a member
	Key      string
	Replace  func(jv.V) jv.V
	Delete   func() jv.V // nil unless an object member
}

// Positions enumerates every governed value of doc under n.
func Positions(n *model.Node, doc jv.V) []Position {
	var out []Position
	var walk func(n *model.Node, v jv.V, p Position, depth int)
	walk = func(n *model.Node, v jv.V, p Position, depth int) {
		if n == nil || depth > 60 {
			return
		}
		orig := n
		viaRef := p.ViaRef
		for i := 0; n != nil && n.Kind == model.KRef && i < 32; i++ {
			n = n.Target
			viaRef = true
		}
		if n == nil {
			return
		}
		p.Node, p.Orig, p.Val, p.ViaRef, p.Depth = n, orig, v, viaRef, depth
		switch n.Kind {
		case model.KAllOf, model.KAnyOf:
			for _, b := range n.Branches {
				bp := p
				bp.InBranch = true
				walk(b, v, bp, depth)
			}
			return
		}
		out = append(out, p)
		switch n.Kind {
		case model.KObject:
			if v.K != jv.Obj {
				return
			}
			for i, kv := range v.O {
				i, kv := i, kv
				child := n.Prop(kv.K)
				cp := p
				cp.Parent, cp.Key = n, kv.K
				cp.Path = p.Path + "/" + kv.K
				if child == nil {
					if n.Additional == nil || n.Additional.Schema == nil {
						continue
					}
					child = n.Additional.Schema
					cp.InAddl = true
				}
				replaceParent := p.Replace
				cur := v
				cp.Replace = func(nv jv.V) jv.V {
					o := jv.V{K: jv.Obj, O: append([]jv.KV{}, cur.O...)}
					o.O[i] = jv.KV{K: kv.K, V: nv}
					return replaceParent(o)
				}
				cp.Delete = func() jv.V {
					o := jv.V{K: jv.Obj, O: []jv.KV{}}
					for j, e := range cur.O {
						if j != i {
							o.O = append(o.O, e)
						}
					}
					return replaceParent(o)
				}
				if kv.V.K == jv.Null {
					cp.Node, cp.Orig, cp.Val, cp.Depth = child.Resolve(), child, kv.V, depth+1
					out = append(out, cp)
					continue
				}
				walk(child, kv.V, cp, depth+1)
			}
		case model.KArray:
			if v.K != jv.Arr || n.Items == nil {
				return
			}
			for i, e := range v.A {
				i := i
				cp := p
				cp.Parent, cp.Key, cp.Delete = nil, "", nil
				cp.Path = fmt.Sprintf("%s/%d", p.Path, i)
				cp.InArray = p.InArray + 1
				replaceParent := p.Replace
				cur := v
				cp.Replace = func(nv jv.V) jv.V {
					a := jv.V{K: jv.Arr, A: append([]jv.V{}, cur.A...)}
					a.A[i] = nv
					return replaceParent(a)
				}
				walk(n.Items, e, cp, depth+1)
			}
		}
	}
	walk(n, doc, Position{Replace: func(v jv.V) jv.V { return v }}, 0)
	return out
}

// Mutant is a document with exactly one mutated position.
type Mutant struct {
	Doc   jv.V
	Rules []string // oracle rules violated (all at Path)
	Path  string
	Label string
	Pos   Position
}

func (m *Mutant) Rule() string { return strings.Join(m.Rules, "+") }

// verify keeps a mutant only when the oracle reports violations and all of
// them sit at or below the mutated position.
func verify(root *model.Node, doc jv.V, path string) ([]string, bool) {
	vs := oracle.Validate(root, doc)
	if len(vs) == 0 {
		return nil, false
	}
	seen := map[string]bool{}
	var rules []string
	for _, v := range vs {
		if v.Path != path && !strings.HasPrefix(v.Path, path+"/") && !(v.Rule == "anyOf" && strings.HasPrefix(path, v.Path)) {
			return nil, false
		}
		if v.Rule == "ambiguous-int" || v.Rule == "null" || v.Rule == "additional" {
			return nil, false
		}
		if !seen[v.Rule] {
			seen[v.Rule] = true
			rules = append(rules, v.Rule)
		}
	}
	return rules, true
}

func typedKind(n *model.Node) bool {
	switch n.Kind {
	case model.KString, model.KInteger, model.KNumber, model.KBoolean, model.KArray, model.KObject, model.KNull:
		return true
	}
	return false
}

var otherTypeValues = []struct {
	name string
	v    jv.V
}{
	{"string", jv.StrV("x")},
	{"integer", jv.IntV(7)},
	{"fraction", jv.NumLit("1.5")},
	{"boolean", jv.BoolV(true)},
	{"array", jv.ArrV()},
	{"object", jv.ObjV()},
	{"array1", jv.ArrV(jv.IntV(1))},
	{"object1", jv.ObjV(jv.Field("zzk", jv.IntV(1)))},
}

func jsonTypeOK(n *model.Node, name string) bool {
	switch n.Kind {
	case model.KString:
		return name == "string"
	case model.KInteger:
		return name == "integer"
	case model.KNumber:
		return name == "integer" || name == "fraction"
	case model.KBoolean:
		return name == "boolean"
	case model.KArray:
		return name == "array" || name == "array1"
	case model.KObject:
		return name == "object" || name == "object1"
	case model.KNull:
		return false // only null is of type null
	}
	return true
}

// Mutants derives single-fault documents from a valid one. kinds selects the
// fault families: type required numeric string array enum.
func Mutants(t *rapid.T, root *model.Node, valid jv.V, kinds map[string]bool, o *Opts) (out []Mutant, discarded int) {
	add := func(p Position, doc jv.V, path, label string) {
		rules, ok := verify(root, doc, path)
		if !ok {
			discarded++
			return
		}
		out = append(out, Mutant{Doc: doc, Rules: rules, Path: path, Label: label, Pos: p})
	}
	for _, p := range Positions(root, valid) {
		n := p.Node
		if p.Val.K == jv.Null && n.Kind != model.KNull {
			continue
		}
		if kinds["type"] && typedKind(n) {
			for _, ov := range otherTypeValues {
				if jsonTypeOK(n, ov.name) {
					continue
				}
				add(p, p.Replace(ov.v), p.Path, "type:"+n.Kind.String()+"<-"+ov.name)
			}
		}
		if kinds["required"] && n.Kind == model.KObject && p.Val.K == jv.Obj {
			// handled at member level below
		}
		if kinds["required"] && p.Parent != nil && p.Delete != nil && !p.InAddl {
			// every present declared key is deleted in turn; the oracle decides whether that
			// breaks a required rule (the rule may be stated by a sibling allOf branch)
			child := p.Parent.Prop(p.Key)
			if child != nil && child.Default == nil && (p.Parent.IsRequired(p.Key) || p.InBranch) {
				d := p.Delete()
				rules, ok := verify(root, d, p.Path)
				if ok && len(rules) == 1 && (rules[0] == "required" || (rules[0] == "anyOf" && p.InBranch)) {
					label := "required"
					if rules[0] == "anyOf" {
						// the key was required by the only branch the document satisfied
						label = "required:anyOf-branch"
					}
					out = append(out, Mutant{Doc: d, Rules: rules, Path: p.Path, Label: label, Pos: p})
				} else if p.Parent.IsRequired(p.Key) {
					discarded++
				}
			}
		}
		if kinds["numeric"] && (n.Kind == model.KInteger || n.Kind == model.KNumber) {
			for _, pr := range Probes(n, nil, false) {
				if pr.Accept {
					continue
				}
				add(p, p.Replace(pr.V), p.Path, "numeric:"+strings.Join(pr.Rules, "+"))
			}
		}
		if kinds["string"] && n.Kind == model.KString && n.Format == "" {
			lo, hi, _ := LengthWindow(n)
			if n.MinLength != nil && *n.MinLength > 0 {
				l := *n.MinLength - 1
				s, ok := StringOfLen(t, n, l, o)
				if !ok {
					s = drawString(t, l, false)
				}
				add(p, p.Replace(jv.StrV(s)), p.Path, "string:short")
			}
			if n.MaxLength != nil {
				l := *n.MaxLength + 1
				s, ok := StringOfLen(t, n, l, o)
				if !ok {
					s = drawString(t, l, false)
				}
				add(p, p.Replace(jv.StrV(s)), p.Path, "string:long")
			}
			if n.Pattern != "" {
				if pt, ok := sgen.PatByRe(n.Pattern); ok {
					if hi < 0 {
						hi = lo + 4
					}
					l := lo
					if hi > lo {
						l = rapid.IntRange(lo, hi).Draw(t, "badlen")
					}
					if s, ok := pt.Bad(t, l); ok {
						if o != nil && o.ByteSafe != nil && byteVerdictDiffers(n, s) && o.ByteSafe() {
							s = asciiFold(s)
						}
						add(p, p.Replace(jv.StrV(s)), p.Path, "string:pattern")
					}
				}
			}
		}
		if kinds["array"] && n.Kind == model.KArray && p.Val.K == jv.Arr {
			if n.MinItems != nil && *n.MinItems > 0 && len(p.Val.A) >= *n.MinItems {
				a := jv.V{K: jv.Arr, A: append([]jv.V{}, p.Val.A[:*n.MinItems-1]...)}
				add(p, p.Replace(a), p.Path, fmt.Sprintf("array:short.d%d", p.InArray+1))
			}
			if n.MaxItems != nil {
				a := jv.V{K: jv.Arr, A: append([]jv.V{}, p.Val.A...)}
				okAll := true
				for len(a.A) <= *n.MaxItems {
					e, ok := Valid(t, n.Items, o)
					if !ok {
						okAll = false
						break
					}
					a.A = append(a.A, e)
				}
				if okAll {
					add(p, p.Replace(a), p.Path, fmt.Sprintf("array:long.d%d", p.InArray+1))
				}
			}
		}
		if kinds["enum"] && n.Kind == model.KEnum {
			var extra []jv.V
			if o != nil {
				extra = o.OtherEnumValues
			}
			for _, nm := range NonMembers(n, extra...) {
				add(p, p.Replace(nm), p.Path, "enum:nonmember:"+nm.K.String())
			}
		}
	}
	return out, discarded
}

// NonMembers returns values of every JSON type that are not members of the
// enum: neighbours of numeric members, case/spacing variants of strings,
// "1" vs 1, true vs "true".
func NonMembers(n *model.Node, extra ...jv.V) []jv.V {
	// extra: members of other enums of the same schema (a value another enum lists is the
	// likeliest thing to be accepted by mistake)
	cands := append([]jv.V{}, extra...)
	for _, m := range n.EnumVals {
		switch m.K {
		case jv.Str:
			cands = append(cands, jv.StrV(m.S+" "), jv.StrV(strings.ToUpper(m.S)), jv.StrV(strings.ToLower(m.S)), jv.StrV(" "+m.S), jv.StrV(m.S+"x"))
			if rs := []rune(m.S); len(rs) > 0 {
				cands = append(cands, jv.StrV(string(rs[:len(rs)-1])))
			}
			if _, err := jv.Parse([]byte(m.S)); err == nil {
				if v, err := jv.Parse([]byte(m.S)); err == nil && v.K != jv.Str && v.K != jv.Arr && v.K != jv.Obj && v.K != jv.Null {
					cands = append(cands, v)
				}
			}
		case jv.Num:
			r := jv.Rat(m.N)
			if r.IsInt() {
				i := r.Num()
				if i.IsInt64() {
					cands = append(cands, jv.IntV(i.Int64()+1), jv.IntV(i.Int64()-1))
				}
			}
			f := jv.Float64(m.N)
			cands = append(cands, jv.FloatV(f+0.5), jv.StrV(m.N))
		case jv.Bool:
			cands = append(cands, jv.BoolV(!m.B), jv.StrV(fmt.Sprint(m.B)))
		case jv.Null:
			cands = append(cands, jv.StrV("null"))
		}
	}
	// R3: null is not a must-reject input at positions that do not name it
	cands = append(cands, jv.StrV("zz-not-a-member"), jv.IntV(987654), jv.NumLit("0.125"), jv.BoolV(true), jv.BoolV(false), jv.ArrV(), jv.ObjV())
	var out []jv.V
	for _, c := range cands {
		member := false
		for _, m := range n.EnumVals {
			if jv.Equal(m, c) {
				member = true
				break
			}
		}
		dup := false
		for _, o := range out {
			if o.K == c.K && jv.Equal(o, c) {
				dup = true
				break
			}
		}
		if !member && !dup {
			out = append(out, c)
		}
	}
	return out
}
