package docs

import (
	"encoding/json"

	"verif/harness/jv"
	"verif/harness/model"
)

// ExpectUntypedAdditional: whether the undeclared keys of an object with untyped
// additionalProperties (true / {}) are expected in the additional-properties
// field (off while the known finding about it is open).
var ExpectUntypedAdditional bool

// Exp is the expected decoded value of a document under a schema: what every
// declared property must hold after decoding (input value, default when absent
// or null, nil when absent and optional). It is model-free once built, so it
// can live in a replay file.
type Exp struct {
	K     string          `json:"k"` // obj map arr absent null str int num bool fmt any enum skip
	Props map[string]*Exp `json:"props,omitempty"`
	// Addl is the expected content of the additional-properties map (typed
	// additionalProperties on an object with properties); nil = not asserted.
	Addl    map[string]json.RawMessage `json:"addl,omitempty"`
	HasAddl bool                       `json:"has_addl,omitempty"`
	// Exact: the struct must not carry json-tagged fields other than Props (allOf/anyOf: the
	// generated type exposes exactly the union of the branches' properties).
	Exact bool            `json:"exact,omitempty"`
	Elems []*Exp          `json:"elems,omitempty"`
	S     string          `json:"s,omitempty"`
	Fmt   string          `json:"fmt,omitempty"`
	Raw   json.RawMessage `json:"raw,omitempty"`
	B     bool            `json:"b,omitempty"`
}

func raw(v jv.V) json.RawMessage { return json.RawMessage(v.Marshal()) }

// Expect computes the expected decoded tree of v under n. v must be valid.
func Expect(n *model.Node, v jv.V) *Exp {
	return expect(n, v, 0)
}

func expect(n *model.Node, v jv.V, depth int) *Exp {
	if n == nil || depth > 300 {
		return &Exp{K: "skip"}
	}
	switch n.Kind {
	case model.KRef:
		return expect(n.Target, v, depth+1)
	case model.KAny:
		if v.K == jv.Null {
			return &Exp{K: "null"}
		}
		return &Exp{K: "any", Raw: raw(v)}
	case model.KEnum:
		return &Exp{K: "enum", Raw: raw(v)}
	case model.KAllOf, model.KAnyOf:
		out := &Exp{K: "obj", Props: map[string]*Exp{}, Exact: true}
		if v.K != jv.Obj {
			return &Exp{K: "skip"}
		}
		for _, b := range n.Branches {
			rb := b.Resolve()
			if rb == nil || rb.Kind != model.KObject {
				return &Exp{K: "skip"}
			}
			if len(rb.Props) == 0 {
				continue // required-only branch
			}
			be := expectObject(rb, v, depth+1)
			for k, e := range be.Props {
				if _, ok := out.Props[k]; !ok {
					out.Props[k] = e
				}
			}
		}
		return out
	}
	if v.K == jv.Null {
		return &Exp{K: "null"}
	}
	switch n.Kind {
	case model.KNull:
		return &Exp{K: "null"}
	case model.KBoolean:
		return &Exp{K: "bool", B: v.B}
	case model.KString:
		if n.Format != "" {
			return &Exp{K: "fmt", Fmt: n.Format, S: v.S}
		}
		return &Exp{K: "str", S: v.S}
	case model.KInteger:
		return &Exp{K: "int", S: v.N}
	case model.KNumber:
		return &Exp{K: "num", S: v.N}
	case model.KArray:
		out := &Exp{K: "arr", Elems: []*Exp{}}
		for _, e := range v.A {
			if n.Items == nil {
				out.Elems = append(out.Elems, &Exp{K: "any", Raw: raw(e)})
			} else {
				out.Elems = append(out.Elems, expect(n.Items, e, depth+1))
			}
		}
		return out
	case model.KObject:
		if v.K != jv.Obj {
			return &Exp{K: "skip"}
		}
		return expectObject(n, v, depth)
	}
	return &Exp{K: "skip"}
}

func expectObject(n *model.Node, v jv.V, depth int) *Exp {
	if len(n.Props) == 0 {
		// Go map
		out := &Exp{K: "map", Props: map[string]*Exp{}}
		for _, kv := range v.O {
			if n.Additional != nil && n.Additional.Schema != nil {
				out.Props[kv.K] = expect(n.Additional.Schema, kv.V, depth+1)
			} else {
				out.Props[kv.K] = &Exp{K: "any", Raw: raw(kv.V)}
			}
		}
		return out
	}
	out := &Exp{K: "obj", Props: map[string]*Exp{}}
	for _, p := range n.Props {
		pv, present := v.Get(p.Name)
		switch {
		case present && pv.K != jv.Null:
			out.Props[p.Name] = expect(p.Node, pv, depth+1)
		case p.Node.Default != nil:
			out.Props[p.Name] = expect(p.Node, *p.Node.Default, depth+1)
		case present:
			out.Props[p.Name] = &Exp{K: "null"}
		default:
			out.Props[p.Name] = &Exp{K: "absent"}
		}
	}
	if n.Additional != nil && !n.Additional.False && n.Additional.Schema != nil && (n.Additional.Schema.Kind != model.KAny || ExpectUntypedAdditional) {
		out.HasAddl = true
		out.Addl = map[string]json.RawMessage{}
		for _, kv := range v.O {
			if n.Prop(kv.K) == nil {
				out.Addl[kv.K] = raw(kv.V)
			}
		}
	}
	return out
}
