// Package docs derives documents from a schema model constructively: valid
// documents, boundary sweeps, single-fault mutants, and the expected decoded
// value of each (DESIGN.md section 1.3).
package docs

import (
	"math"
	"math/big"
	"sort"

	"pgregory.net/rapid"

	"verif/harness/jv"
	"verif/harness/model"
	"verif/harness/oracle"
)

var (
	minInt64 = big.NewInt(math.MinInt64)
	maxInt64 = big.NewInt(math.MaxInt64)
)

func ratF(f float64) *big.Rat { return new(big.Rat).SetFloat64(f) }

// exactFloat reports whether r is exactly a float64 and returns its shortest
// literal.
func exactFloat(r *big.Rat) (jv.V, bool) {
	f, exact := r.Float64()
	if !exact || math.IsInf(f, 0) {
		return jv.V{}, false
	}
	return jv.FloatV(f), true
}

// litFor renders the exact value r for a node of kind k under R1/R2.
func litFor(k model.Kind, r *big.Rat, allowUint64 bool) (jv.V, bool) {
	if k == model.KInteger {
		if !r.IsInt() {
			return jv.V{}, false
		}
		n := r.Num()
		if n.Cmp(minInt64) < 0 {
			return jv.V{}, false
		}
		if n.Cmp(maxInt64) > 0 {
			if !allowUint64 || !n.IsUint64() {
				return jv.V{}, false
			}
		}
		return jv.BigV(n), true
	}
	return exactFloat(r)
}

// Stated returns the numeric constants a node states (bounds), deduplicated.
func Stated(n *model.Node) []float64 {
	var out []float64
	add := func(f float64) {
		for _, x := range out {
			if x == f {
				return
			}
		}
		out = append(out, f)
	}
	if n.Minimum != nil {
		add(*n.Minimum)
	}
	if n.Maximum != nil {
		add(*n.Maximum)
	}
	if n.ExclMin != nil && !n.ExclMin.IsBool {
		add(n.ExclMin.N)
	}
	if n.ExclMax != nil && !n.ExclMax.IsBool {
		add(n.ExclMax.N)
	}
	sort.Float64s(out)
	return out
}

// Candidates enumerates probe values on, next to and between every stated
// bound (and around extra points), snapped to multiples of multipleOf and to
// half-steps between multiples. Values are exact rationals.
func Candidates(n *model.Node, extra []float64) []*big.Rat {
	step := big.NewRat(1, 1)
	if n.Kind == model.KNumber {
		step = big.NewRat(1, 8)
	}
	var mult *big.Rat
	if n.MultipleOf != nil {
		mult = ratF(*n.MultipleOf)
	}
	pts := append([]float64{}, Stated(n)...)
	pts = append(pts, extra...)
	if len(pts) == 0 {
		pts = []float64{0}
	}
	seen := map[string]bool{}
	var out []*big.Rat
	add := func(r *big.Rat) {
		k := r.RatString()
		if !seen[k] {
			seen[k] = true
			out = append(out, r)
		}
	}
	for i, p := range pts {
		b := ratF(p)
		for _, d := range []int64{-2, -1, 0, 1, 2} {
			v := new(big.Rat).Add(b, new(big.Rat).Mul(step, big.NewRat(d, 1)))
			add(v)
			if mult != nil {
				// nearest multiples below and above, and the half-step between
				q := new(big.Rat).Quo(v, mult)
				fl := floorRat(q)
				lo := new(big.Rat).Mul(new(big.Rat).SetInt(fl), mult)
				hi := new(big.Rat).Add(lo, mult)
				add(lo)
				add(hi)
				add(new(big.Rat).Add(lo, new(big.Rat).Quo(mult, big.NewRat(2, 1))))
			}
		}
		if n.Kind == model.KNumber {
			// a fractional neighbour of each bound
			add(new(big.Rat).Add(b, big.NewRat(1, 1024)))
			add(new(big.Rat).Sub(b, big.NewRat(1, 1024)))
		}
		if i+1 < len(pts) {
			mid := new(big.Rat).Quo(new(big.Rat).Add(b, ratF(pts[i+1])), big.NewRat(2, 1))
			if n.Kind == model.KInteger {
				mid = new(big.Rat).SetInt(floorRat(mid))
			}
			add(mid)
		}
	}
	return out
}

func floorRat(q *big.Rat) *big.Int {
	fl := new(big.Int).Div(q.Num(), q.Denom()) // Euclidean division floors for positive denominators
	return fl
}

// NumProbe is a candidate value with its oracle verdict.
type NumProbe struct {
	V      jv.V
	R      *big.Rat
	Accept bool
	Rules  []string
}

// Probes evaluates every representable candidate against the oracle.
func Probes(n *model.Node, extra []float64, allowUint64 bool) []NumProbe {
	var out []NumProbe
	for _, r := range Candidates(n, extra) {
		lit, ok := litFor(n.Kind, r, allowUint64)
		if !ok {
			continue
		}
		var rules []string
		bare := *n
		bare.Nullable = false
		for _, v := range oracle.Validate(&bare, lit) {
			rules = append(rules, v.Rule)
		}
		out = append(out, NumProbe{V: lit, R: r, Accept: len(rules) == 0, Rules: rules})
	}
	return out
}

// Satisfiable reports whether some representable value is accepted.
func Satisfiable(n *model.Node) bool {
	_, ok := firstValid(n)
	return ok
}

func firstValid(n *model.Node) ([]NumProbe, bool) {
	var ok []NumProbe
	for _, p := range Probes(n, nil, false) {
		if p.Accept {
			ok = append(ok, p)
		}
	}
	return ok, len(ok) > 0
}

// PickNumber draws an accepted value, boundary values preferred.
func PickNumber(t *rapid.T, n *model.Node) (jv.V, bool) {
	var extra []float64
	if len(Stated(n)) == 0 || rapid.IntRange(0, 3).Draw(t, "numextra") == 0 {
		if n.Kind == model.KInteger {
			extra = append(extra, float64(rapid.SampledFrom([]int64{0, 1, -1, 7, 42, -1000, 65536, 1 << 31, -(1 << 31) - 1, 1 << 53, 1<<53 + 2}).Draw(t, "numrand")))
		} else {
			extra = append(extra, rapid.SampledFrom([]float64{0, 0.5, -1.25, 3.75, 1e10, -2.5e-3, 1234.5678, 1e-7, 123456789.125}).Draw(t, "numrand"))
		}
	}
	var ok []NumProbe
	for _, p := range Probes(n, extra, false) {
		if p.Accept {
			ok = append(ok, p)
		}
	}
	if len(ok) == 0 {
		return jv.V{}, false
	}
	return ok[rapid.IntRange(0, len(ok)-1).Draw(t, "numpick")].V, true
}
