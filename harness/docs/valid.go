package docs

import (
	"fmt"
	"strings"
	"unicode/utf8"

	"pgregory.net/rapid"

	"verif/harness/jv"
	"verif/harness/model"
	"verif/harness/sgen"
)

// Opts steers document generation.
type Opts struct {
	// ASCIIOnlyWhereBytesDiffer: known-finding exclusion
	// strings.multibyte_where_bytes_differ.
	ByteSafe  func() bool
	Excluded  map[string]int
	NoNulls   bool // never draw null at nullable positions
	ASCIIOnly bool // strings from the ASCII alphabet only
	// NoNullObjects: known-finding exclusion nulls.nullable_object_with_properties.
	NoNullObjects func() bool
	// SmallAddlNumbers: known-finding exclusion addprops.int_beyond_2pow53.
	SmallAddlNumbers func() bool
	AllProps         bool // include every optional property
	NoProps          bool // omit every optional property
	MaxArr           int
	PreferBoundary   bool
	// OtherEnumValues: values listed by any enum of the schema; used as additional
	// non-member candidates for every enum that does not list them.
	OtherEnumValues []jv.V
}

const asciiAlphabet = "abcXYZ019 _-"
const wideAlphabet = "aé日😀zßжK9"

func drawString(t *rapid.T, n int, wide bool) string {
	alpha := []rune(asciiAlphabet)
	if wide {
		alpha = []rune(wideAlphabet)
	}
	var sb strings.Builder
	for i := 0; i < n; i++ {
		sb.WriteRune(alpha[rapid.IntRange(0, len(alpha)-1).Draw(t, "ch")])
	}
	return sb.String()
}

func asciiFold(s string) string {
	var sb strings.Builder
	for _, r := range s {
		if r < 0x80 {
			sb.WriteRune(r)
		} else {
			sb.WriteRune('a')
		}
	}
	return sb.String()
}

// byteVerdictDiffers reports whether counting bytes instead of runes changes
// the length verdict for s under n.
func byteVerdictDiffers(n *model.Node, s string) bool {
	rc, bc := utf8.RuneCountInString(s), len(s)
	in := func(l int) bool {
		if n.MinLength != nil && l < *n.MinLength {
			return false
		}
		if n.MaxLength != nil && l > *n.MaxLength {
			return false
		}
		return true
	}
	return in(rc) != in(bc)
}

// StringOfLen builds a string of exactly l runes that matches the node's
// pattern (ok=false when the pattern admits no such length).
func StringOfLen(t *rapid.T, n *model.Node, l int, o *Opts) (string, bool) {
	var s string
	if n.Pattern != "" {
		p, ok := sgen.PatByRe(n.Pattern)
		if !ok || !p.Feasible(l, l) {
			return "", false
		}
		s = p.Build(t, l)
	} else {
		s = drawString(t, l, rapid.Bool().Draw(t, "wide") && (o == nil || !o.ASCIIOnly))
	}
	if o != nil && o.ASCIIOnly {
		s = asciiFold(s)
	}
	if o != nil && o.ByteSafe != nil && byteVerdictDiffers(n, s) && o.ByteSafe() {
		if o.Excluded != nil {
			o.Excluded["strings.multibyte_where_bytes_differ"]++
		}
		s = asciiFold(s)
	}
	return s, true
}

// LengthWindow returns the feasible rune lengths [lo,hi] (hi<0 unbounded,
// ok=false when empty) under min/max and the pattern.
func LengthWindow(n *model.Node) (int, int, bool) {
	lo, hi := 0, -1
	if n.MinLength != nil {
		lo = *n.MinLength
	}
	if n.MaxLength != nil {
		hi = *n.MaxLength
	}
	if n.Pattern != "" {
		if p, ok := sgen.PatByRe(n.Pattern); ok {
			lo, hi = p.Clamp(lo, hi)
		}
	}
	if hi >= 0 && lo > hi {
		return lo, hi, false
	}
	return lo, hi, true
}

var (
	dateGen = rapid.Custom(func(t *rapid.T) string {
		if rapid.IntRange(0, 7).Draw(t, "special") == 0 {
			// calendar corners: leap days (also of years divisible by 400 and by 4 only), month ends
			return rapid.SampledFrom([]string{"2000-02-29", "2400-02-29", "1600-02-29", "2024-02-29", "0004-02-29", "1996-02-29",
				"2023-12-31", "1999-01-31", "2021-04-30", "9999-12-31", "0001-01-01"}).Draw(t, "specialdate")
		}
		return fmt.Sprintf("%04d-%02d-%02d", rapid.IntRange(1, 9999).Draw(t, "y"), rapid.IntRange(1, 12).Draw(t, "m"), rapid.IntRange(1, 28).Draw(t, "d"))
	})
	timeGen = rapid.Custom(func(t *rapid.T) string {
		return fmt.Sprintf("%02d:%02d:%02d", rapid.IntRange(0, 23).Draw(t, "h"), rapid.IntRange(0, 59).Draw(t, "mi"), rapid.IntRange(0, 59).Draw(t, "s"))
	})
	dateTimeGen = rapid.Custom(func(t *rapid.T) string {
		s := dateGen.Draw(t, "date") + "T" + timeGen.Draw(t, "time")
		switch rapid.IntRange(0, 3).Draw(t, "frac") {
		case 1:
			s += fmt.Sprintf(".%d", rapid.IntRange(1, 9).Draw(t, "f1"))
		case 2:
			s += fmt.Sprintf(".%06d", rapid.IntRange(1, 999999).Draw(t, "f6"))
			s = strings.TrimRight(s, "0")
		}
		switch rapid.IntRange(0, 2).Draw(t, "zone") {
		case 0:
			s += "Z"
		case 1:
			s += fmt.Sprintf("+%02d:%02d", rapid.IntRange(1, 13).Draw(t, "zh"), rapid.SampledFrom([]int{0, 30, 45}).Draw(t, "zm"))
		default:
			s += fmt.Sprintf("-%02d:00", rapid.IntRange(1, 11).Draw(t, "zh"))
		}
		return s
	})
	ipv4Gen = rapid.Custom(func(t *rapid.T) string {
		return fmt.Sprintf("%d.%d.%d.%d", rapid.IntRange(0, 255).Draw(t, "a"), rapid.IntRange(0, 255).Draw(t, "b"), rapid.IntRange(0, 255).Draw(t, "c"), rapid.IntRange(0, 255).Draw(t, "d"))
	})
	ipv6Gen = rapid.SampledFrom([]string{"::1", "2001:db8::1", "fe80::1", "2001:db8:85a3::8a2e:370:7334", "::", "ff02::2", "1:2:3:4:5:6:7:8"})
)

// FormatValue draws a canonical value of a format (R5).
func FormatValue(t *rapid.T, format string) string {
	switch format {
	case "date":
		return dateGen.Draw(t, "fdate")
	case "time":
		return timeGen.Draw(t, "ftime")
	case "date-time":
		return dateTimeGen.Draw(t, "fdt")
	case "ipv4":
		return ipv4Gen.Draw(t, "fip4")
	case "ipv6":
		return ipv6Gen.Draw(t, "fip6")
	}
	return ""
}

func anyValue(t *rapid.T, depth int) jv.V {
	k := rapid.IntRange(0, 5).Draw(t, "anykind")
	if depth > 1 && k > 3 {
		k = 0
	}
	switch k {
	case 0:
		return jv.StrV(drawString(t, rapid.IntRange(0, 5).Draw(t, "anylen"), false))
	case 1:
		return jv.IntV(int64(rapid.IntRange(-1000, 1000).Draw(t, "anyint")))
	case 2:
		return jv.BoolV(rapid.Bool().Draw(t, "anybool"))
	case 3:
		return jv.FloatV(float64(rapid.IntRange(-100, 100).Draw(t, "anyf")) / 4)
	case 4:
		n := rapid.IntRange(0, 2).Draw(t, "anyarrn")
		a := jv.V{K: jv.Arr, A: []jv.V{}}
		for i := 0; i < n; i++ {
			a.A = append(a.A, anyValue(t, depth+1))
		}
		return a
	}
	n := rapid.IntRange(0, 2).Draw(t, "anyobjn")
	o := jv.V{K: jv.Obj, O: []jv.KV{}}
	for i := 0; i < n; i++ {
		o.O = append(o.O, jv.KV{K: fmt.Sprintf("k%d", i), V: anyValue(t, depth+1)})
	}
	return o
}

// ExtraKey returns an undeclared key that cannot case-fold onto a declared
// key or a Go field name (R4).
func ExtraKey(i int) string { return fmt.Sprintf("zzextra%d", i) }

// Valid draws a document accepted by n (ok=false when none exists).
func Valid(t *rapid.T, n *model.Node, o *Opts) (jv.V, bool) {
	return valid(t, n, o, 0)
}

func valid(t *rapid.T, n *model.Node, o *Opts, depth int) (jv.V, bool) {
	if o == nil {
		o = &Opts{}
	}
	if n == nil {
		return anyValue(t, 1), true
	}
	if depth > 40 {
		return jv.V{}, false
	}
	switch n.Kind {
	case model.KAny:
		return anyValue(t, 0), true
	case model.KNull:
		return jv.NullV(), true
	case model.KRef:
		return valid(t, n.Target, o, depth+1)
	case model.KBoolean:
		return jv.BoolV(rapid.Bool().Draw(t, "bool")), true
	case model.KString:
		if n.Format != "" {
			return jv.StrV(FormatValue(t, n.Format)), true
		}
		lo, hi, ok := LengthWindow(n)
		if !ok {
			return jv.V{}, false
		}
		if hi < 0 {
			hi = lo + 5
		}
		var l int
		switch rapid.IntRange(0, 3).Draw(t, "lenpick") {
		case 0:
			l = lo
		case 1:
			l = hi
		default:
			l = rapid.IntRange(lo, hi).Draw(t, "len")
		}
		s, ok := StringOfLen(t, n, l, o)
		if !ok {
			return jv.V{}, false
		}
		return jv.StrV(s), true
	case model.KInteger, model.KNumber:
		return PickNumber(t, n)
	case model.KEnum:
		if len(n.EnumVals) == 0 {
			return jv.V{}, false
		}
		return rapid.SampledFrom(n.EnumVals).Draw(t, "member"), true
	case model.KArray:
		lo, hi := 0, 3
		if o.MaxArr > 0 {
			hi = o.MaxArr
		}
		if n.MinItems != nil {
			lo = *n.MinItems
			if hi < lo {
				hi = lo + 2
			}
		}
		if n.MaxItems != nil {
			hi = *n.MaxItems
		}
		if lo > hi {
			return jv.V{}, false
		}
		var l int
		switch rapid.IntRange(0, 3).Draw(t, "arrpick") {
		case 0:
			l = lo
		case 1:
			l = hi
		default:
			l = rapid.IntRange(lo, hi).Draw(t, "arrlen")
		}
		a := jv.V{K: jv.Arr, A: []jv.V{}}
		for i := 0; i < l; i++ {
			e, ok := valid(t, n.Items, o, depth+1)
			if !ok {
				if lo == 0 {
					return jv.V{K: jv.Arr, A: []jv.V{}}, true
				}
				return jv.V{}, false
			}
			a.A = append(a.A, e)
		}
		return a, true
	case model.KObject:
		return validObject(t, n, o, depth)
	case model.KAllOf:
		out := jv.V{K: jv.Obj, O: []jv.KV{}}
		for _, b := range n.Branches {
			if rb := b.Resolve(); rb != nil && rb.Kind == model.KObject && len(rb.Props) == 0 && rb.NoType {
				continue // required-only branch: satisfied below
			}
			bv, ok := valid(t, b, o, depth+1)
			if !ok {
				return jv.V{}, false
			}
			for _, kv := range bv.O {
				if !out.Has(kv.K) {
					out.O = append(out.O, kv)
				}
			}
		}
		for _, b := range n.Branches {
			rb := b.Resolve()
			if rb == nil || rb.Kind != model.KObject || len(rb.Props) != 0 || !rb.NoType {
				continue
			}
			for _, r := range rb.Required {
				if out.Has(r) {
					continue
				}
				for _, sb := range n.Branches {
					if sn := sb.Resolve(); sn != nil {
						if pn := sn.Prop(r); pn != nil {
							oo := *o
							oo.NoNulls = true
							if v, ok := valid(t, pn, &oo, depth+1); ok {
								out.O = append(out.O, jv.KV{K: r, V: v})
							}
							break
						}
					}
				}
				if !out.Has(r) {
					return jv.V{}, false
				}
			}
		}
		return out, true
	case model.KAnyOf:
		if len(n.Branches) == 0 {
			return jv.V{}, false
		}
		i := rapid.IntRange(0, len(n.Branches)-1).Draw(t, "branch")
		for k := 0; k < len(n.Branches); k++ {
			if v, ok := valid(t, n.Branches[(i+k)%len(n.Branches)], o, depth+1); ok {
				return v, true
			}
		}
		return jv.V{}, false
	}
	return jv.V{}, false
}

func validObject(t *rapid.T, n *model.Node, o *Opts, depth int) (jv.V, bool) {
	out := jv.V{K: jv.Obj, O: []jv.KV{}}
	for _, p := range n.Props {
		req := n.IsRequired(p.Name)
		include := req
		if !req {
			switch {
			case o.AllProps:
				include = true
			case o.NoProps:
				include = false
			default:
				include = rapid.IntRange(0, 9).Draw(t, "include") < 6
			}
		} else if p.Node.Default != nil && !o.AllProps {
			// a required property with a default may be absent
			include = rapid.IntRange(0, 9).Draw(t, "includedef") < 7
		}
		if !include {
			continue
		}
		rp := p.Node
		if rp.Nullable && !o.NoNulls && rapid.IntRange(0, 9).Draw(t, "null") < 2 {
			if rp.Kind == model.KObject && len(rp.Props) > 0 && o.NoNullObjects != nil && o.NoNullObjects() {
				if o.Excluded != nil {
					o.Excluded["nulls.nullable_object_with_properties"]++
				}
			} else {
				out.O = append(out.O, jv.KV{K: p.Name, V: jv.NullV()})
				continue
			}
		}
		v, ok := valid(t, p.Node, o, depth+1)
		if !ok {
			if req {
				if rp.Nullable && !o.NoNulls && !(rp.Kind == model.KObject && len(rp.Props) > 0 && o.NoNullObjects != nil && o.NoNullObjects()) {
					out.O = append(out.O, jv.KV{K: p.Name, V: jv.NullV()})
					continue
				}
				return jv.V{}, false
			}
			continue
		}
		out.O = append(out.O, jv.KV{K: p.Name, V: v})
	}
	if n.Additional != nil && !n.Additional.False && !o.NoProps {
		k := rapid.IntRange(0, 2).Draw(t, "nextra")
		if len(n.Props) == 0 && k == 0 && rapid.Bool().Draw(t, "mapnonempty") {
			k = 1
		}
		for i := 0; i < k; i++ {
			v, ok := valid(t, n.Additional.Schema, o, depth+1)
			if ok {
				if v.K == jv.Num && o.SmallAddlNumbers != nil {
					if r := jv.Rat(v.N); r.IsInt() && r.Num().BitLen() > 53 && o.SmallAddlNumbers() {
						if o.Excluded != nil {
							o.Excluded["addprops.int_beyond_2pow53"]++
						}
						v = jv.IntV(int64(i) + 7)
					}
				}
				out.O = append(out.O, jv.KV{K: ExtraKey(i), V: v})
			}
		}
	} else if n.Additional == nil && len(n.Props) == 0 && !o.NoProps {
		// untyped map
		k := rapid.IntRange(0, 2).Draw(t, "nmapkeys")
		for i := 0; i < k; i++ {
			out.O = append(out.O, jv.KV{K: ExtraKey(i), V: anyValue(t, 1)})
		}
	}
	return out, true
}
