// Package model is the typed schema model every check generates from. A Node is
// rendered to schema text (JSON or YAML, several spellings) for the tool, and
// interpreted by the reference oracle; neither direction looks at the tool's own
// data structures.
package model

import (
	"sort"

	"verif/harness/jv"
)

type Kind int

const (
	KAny Kind = iota // true / {}
	KObject
	KArray
	KString
	KInteger
	KNumber
	KBoolean
	KNull
	KEnum
	KRef
	KAllOf
	KAnyOf
)

func (k Kind) String() string {
	return [...]string{"any", "object", "array", "string", "integer", "number", "boolean", "null", "enum", "ref", "allOf", "anyOf"}[k]
}

// Excl is an exclusiveMinimum/exclusiveMaximum keyword: draft-4 boolean or
// draft-6 number.
type Excl struct {
	IsBool bool
	B      bool
	N      float64
}

type Prop struct {
	Name string
	Node *Node
}

// Additional is the additionalProperties keyword: false, or a schema.
type Additional struct {
	False  bool
	Schema *Node
}

type Ext struct {
	Type       string
	Identifier string
	Nillable   bool
	Imports    []string
}

type Node struct {
	Kind      Kind
	Nullable  bool // type: [T, "null"]
	NullFirst bool // written ["null", T]
	TypeList  bool // single type written as one-element list
	NoType    bool // omit the "type" keyword (objects inside definitions default to object, enums untyped)

	Title   string
	Desc    string
	Default *jv.V

	// object
	Props      []Prop
	Required   []string
	Additional *Additional

	// array
	Items    *Node
	MinItems *int
	MaxItems *int

	// string
	MinLength *int
	MaxLength *int
	Pattern   string
	Format    string

	// integer / number
	Minimum    *float64
	Maximum    *float64
	ExclMin    *Excl
	ExclMax    *Excl
	MultipleOf *float64

	// enum
	EnumType string // "" untyped, else a JSON type name
	// EnumTypes: a list of two or more JSON type names stated next to the enum
	// (every listed value is of one of them); overrides EnumType when set.
	EnumTypes []string
	EnumVals  []jv.V

	// ref
	Ref    string // text of $ref
	Target *Node  // resolved target (oracle side)

	// allOf / anyOf
	Branches []*Node

	Ext *Ext

	// Noise is inert extra keywords (unsupported keywords, unknown keys)
	// rendered verbatim after everything else.
	Noise []jv.KV
	// Deps: dependentSchemas entries on this (non-root) schema; inert for the tool,
	// written under the legacy keyword "dependencies" when the spelling says so
	Deps []Prop

	// AnyAsTrue renders a KAny node as `true` instead of `{}`.
	AnyAsTrue bool
}

func (n *Node) Prop(name string) *Node {
	for _, p := range n.Props {
		if p.Name == name {
			return p.Node
		}
	}
	return nil
}

func (n *Node) IsRequired(name string) bool {
	for _, r := range n.Required {
		if r == name {
			return true
		}
	}
	return false
}

// Resolve follows refs to the schema that actually constrains a value.
func (n *Node) Resolve() *Node {
	for i := 0; n != nil && n.Kind == KRef && i < 64; i++ {
		n = n.Target
	}
	return n
}

type Def struct {
	Name string
	Node *Node
}

type Format int

const (
	JSON Format = iota
	YAML
)

// Spelling selects among equivalent ways to write the same schema (C13).
type Spelling struct {
	LegacyID         bool  // "id" instead of "$id"
	LegacyDefs       bool  // "definitions" + "#/definitions/"
	BothDefs         bool  // both keywords with identical content
	UpperRefPrefix   bool  // "#/$DEFS/" (prefix match is case-insensitive)
	StaleLegacy      bool  // with BothDefs: the legacy container holds a stale copy (required lists dropped)
	YAMLPlainStrings bool  // block style: strings that need no quotes under YAML 1.2 are written plain
	PointerOther     bool  // pointers name the other container keyword than the one the document uses
	TypeAsList       bool  // every single type as one-element list
	AnyAsTrue        bool  // true instead of {} where allowed
	LegacyDeps       bool  // "dependencies" instead of "dependentSchemas" (inert)
	YAMLFlow         bool  // YAML written in flow style
	YAMLBareKeys     bool  // numeric/boolean-looking keys unquoted in YAML
	ShuffleKeys      []int // permutation seed stream for object key order (C12); nil = canonical
}

type File struct {
	RelPath  string
	Format   Format
	ID       string
	NoID     bool
	Title    string
	Root     *Node // may be nil: only definitions
	Defs     []Def
	Spelling Spelling
	Schema   string // "$schema" value, optional
	Deps     []Prop // dependentSchemas entries (inert)
}

func (f *File) Def(name string) *Node {
	for _, d := range f.Defs {
		if d.Name == name {
			return d.Node
		}
	}
	return nil
}

// staleOf is the out-of-date copy of a definition kept under the legacy
// container keyword: every constraint is gone and every primitive type is a
// different one, at every depth. A reader that lets it win over the current
// definition is wrong for every kind of document.
func staleOf(v jv.V) jv.V {
	if v.K != jv.Obj {
		return v
	}
	for _, k := range []string{"required", "minLength", "maxLength", "pattern", "format", "minimum", "maximum", "exclusiveMinimum", "exclusiveMaximum",
		"multipleOf", "minItems", "maxItems", "enum", "default"} {
		v = v.Del(k)
	}
	if t, ok := v.Get("type"); ok && t.K == jv.Str {
		switch t.S {
		case "string":
			v = v.Set("type", jv.StrV("integer"))
		case "integer", "number", "boolean":
			v = v.Set("type", jv.StrV("string"))
		}
	}
	if ps, ok := v.Get("properties"); ok && ps.K == jv.Obj {
		np := ps.Clone()
		for i := range np.O {
			np.O[i].V = staleOf(np.O[i].V)
		}
		v = v.Set("properties", np)
	}
	for _, k := range []string{"items", "additionalProperties"} {
		if x, ok := v.Get(k); ok && x.K == jv.Obj {
			v = v.Set(k, staleOf(x))
		}
	}
	return v
}

func IntP(i int) *int           { return &i }
func FloatP(f float64) *float64 { return &f }

// ---------------------------------------------------------------------------
// Rendering

func typeName(k Kind) string {
	switch k {
	case KObject:
		return "object"
	case KArray:
		return "array"
	case KString:
		return "string"
	case KInteger:
		return "integer"
	case KNumber:
		return "number"
	case KBoolean:
		return "boolean"
	case KNull:
		return "null"
	}
	return ""
}

func (e *Excl) value() jv.V {
	if e.IsBool {
		return jv.BoolV(e.B)
	}
	return jv.FloatV(e.N)
}

// Render turns a node into its JSON value under a spelling.
func (n *Node) Render(sp *Spelling) jv.V {
	if n == nil {
		return jv.ObjV()
	}
	if n.Kind == KAny && n.Ext == nil && n.Default == nil && n.Title == "" && n.Desc == "" && len(n.Noise) == 0 {
		if n.AnyAsTrue || (sp != nil && sp.AnyAsTrue) {
			return jv.BoolV(true)
		}
		return jv.ObjV()
	}
	var o []jv.KV
	add := func(k string, v jv.V) { o = append(o, jv.KV{K: k, V: v}) }

	if n.Title != "" {
		add("title", jv.StrV(n.Title))
	}
	if n.Desc != "" {
		add("description", jv.StrV(n.Desc))
	}
	tn := typeName(n.Kind)
	if n.Kind == KEnum {
		tn = n.EnumType
	}
	if n.Kind == KEnum && len(n.EnumTypes) > 1 {
		tl := jv.ArrV()
		for _, x := range n.EnumTypes {
			tl.A = append(tl.A, jv.StrV(x))
		}
		add("type", tl)
		tn = ""
	}
	if tn != "" && !n.NoType {
		switch {
		case n.Nullable && n.NullFirst:
			add("type", jv.ArrV(jv.StrV("null"), jv.StrV(tn)))
		case n.Nullable:
			add("type", jv.ArrV(jv.StrV(tn), jv.StrV("null")))
		case n.TypeList || (sp != nil && sp.TypeAsList):
			add("type", jv.ArrV(jv.StrV(tn)))
		default:
			add("type", jv.StrV(tn))
		}
	}
	switch n.Kind {
	case KObject:
		if len(n.Props) > 0 {
			po := make([]jv.KV, 0, len(n.Props))
			for _, p := range n.Props {
				po = append(po, jv.KV{K: p.Name, V: p.Node.Render(sp)})
			}
			add("properties", jv.V{K: jv.Obj, O: po})
		}
		if n.Required != nil {
			ra := make([]jv.V, 0, len(n.Required))
			for _, r := range n.Required {
				ra = append(ra, jv.StrV(r))
			}
			add("required", jv.V{K: jv.Arr, A: ra})
		}
		if n.Additional != nil {
			if n.Additional.False {
				add("additionalProperties", jv.BoolV(false))
			} else {
				add("additionalProperties", n.Additional.Schema.Render(sp))
			}
		}
	case KArray:
		if n.Items != nil {
			add("items", n.Items.Render(sp))
		}
		if n.MinItems != nil {
			add("minItems", jv.IntV(int64(*n.MinItems)))
		}
		if n.MaxItems != nil {
			add("maxItems", jv.IntV(int64(*n.MaxItems)))
		}
	case KString:
		if n.MinLength != nil {
			add("minLength", jv.IntV(int64(*n.MinLength)))
		}
		if n.MaxLength != nil {
			add("maxLength", jv.IntV(int64(*n.MaxLength)))
		}
		if n.Pattern != "" {
			add("pattern", jv.StrV(n.Pattern))
		}
		if n.Format != "" {
			add("format", jv.StrV(n.Format))
		}
	case KInteger, KNumber:
		if n.Minimum != nil {
			add("minimum", jv.FloatV(*n.Minimum))
		}
		if n.Maximum != nil {
			add("maximum", jv.FloatV(*n.Maximum))
		}
		if n.ExclMin != nil {
			add("exclusiveMinimum", n.ExclMin.value())
		}
		if n.ExclMax != nil {
			add("exclusiveMaximum", n.ExclMax.value())
		}
		if n.MultipleOf != nil {
			add("multipleOf", jv.FloatV(*n.MultipleOf))
		}
	case KEnum:
		add("enum", jv.V{K: jv.Arr, A: append([]jv.V{}, n.EnumVals...)})
	case KRef:
		add("$ref", jv.StrV(renderRef(n.Ref, sp)))
	case KAllOf, KAnyOf:
		ba := make([]jv.V, 0, len(n.Branches))
		for _, b := range n.Branches {
			ba = append(ba, b.Render(sp))
		}
		k := "allOf"
		if n.Kind == KAnyOf {
			k = "anyOf"
		}
		add(k, jv.V{K: jv.Arr, A: ba})
	}
	if n.Default != nil {
		add("default", *n.Default)
	}
	if n.Ext != nil {
		var eo []jv.KV
		if n.Ext.Type != "" {
			eo = append(eo, jv.KV{K: "type", V: jv.StrV(n.Ext.Type)})
		}
		if n.Ext.Identifier != "" {
			eo = append(eo, jv.KV{K: "identifier", V: jv.StrV(n.Ext.Identifier)})
		}
		if n.Ext.Nillable {
			eo = append(eo, jv.KV{K: "nillable", V: jv.BoolV(true)})
		}
		if len(n.Ext.Imports) > 0 {
			ia := make([]jv.V, 0)
			for _, s := range n.Ext.Imports {
				ia = append(ia, jv.StrV(s))
			}
			eo = append(eo, jv.KV{K: "imports", V: jv.V{K: jv.Arr, A: ia}})
		}
		add("goJSONSchema", jv.V{K: jv.Obj, O: eo})
	}
	if len(n.Deps) > 0 {
		do := make([]jv.KV, 0, len(n.Deps))
		for _, d := range n.Deps {
			do = append(do, jv.KV{K: d.Name, V: d.Node.Render(sp)})
		}
		k := "dependentSchemas"
		if sp != nil && sp.LegacyDeps {
			k = "dependencies"
		}
		add(k, jv.V{K: jv.Obj, O: do})
	}
	o = append(o, n.Noise...)
	return jv.V{K: jv.Obj, O: o}
}

// renderRef rewrites the canonical "#/$defs/" prefix per spelling.
func renderRef(ref string, sp *Spelling) string {
	if sp == nil {
		return ref
	}
	const canon = "#/$defs/"
	i := indexOf(ref, canon)
	if i < 0 {
		return ref
	}
	prefix := canon
	legacyPtr := sp.LegacyDefs != sp.PointerOther
	if legacyPtr {
		prefix = "#/definitions/"
	}
	if sp.UpperRefPrefix {
		if legacyPtr {
			prefix = "#/Definitions/"
		} else {
			prefix = "#/$DEFS/"
		}
	}
	return ref[:i] + prefix + ref[i+len(canon):]
}

func indexOf(s, sub string) int {
	for i := 0; i+len(sub) <= len(s); i++ {
		if s[i:i+len(sub)] == sub {
			return i
		}
	}
	return -1
}

// Render produces the JSON value of the whole file.
func (f *File) Render() jv.V {
	sp := &f.Spelling
	var o []jv.KV
	add := func(k string, v jv.V) { o = append(o, jv.KV{K: k, V: v}) }
	if f.Schema != "" {
		add("$schema", jv.StrV(f.Schema))
	}
	if !f.NoID && f.ID != "" {
		if sp.LegacyID {
			add("id", jv.StrV(f.ID))
		} else {
			add("$id", jv.StrV(f.ID))
		}
	}
	if f.Title != "" {
		add("title", jv.StrV(f.Title))
	}
	if f.Root != nil {
		rv := f.Root.Render(sp)
		if rv.K == jv.Obj {
			for _, kv := range rv.O {
				if kv.K == "title" && f.Title != "" {
					continue
				}
				o = append(o, kv)
			}
		}
	}
	if len(f.Defs) > 0 {
		do := make([]jv.KV, 0, len(f.Defs))
		for _, d := range f.Defs {
			do = append(do, jv.KV{K: d.Name, V: d.Node.Render(sp)})
		}
		dv := jv.V{K: jv.Obj, O: do}
		switch {
		case sp.BothDefs && sp.StaleLegacy:
			add("$defs", dv)
			stale := dv.Clone()
			for i := range stale.O {
				stale.O[i].V = staleOf(stale.O[i].V)
			}
			add("definitions", stale)
		case sp.BothDefs:
			add("$defs", dv)
			add("definitions", dv.Clone())
		case sp.LegacyDefs:
			add("definitions", dv)
		default:
			add("$defs", dv)
		}
	}
	if len(f.Deps) > 0 {
		do := make([]jv.KV, 0, len(f.Deps))
		for _, d := range f.Deps {
			do = append(do, jv.KV{K: d.Name, V: d.Node.Render(sp)})
		}
		k := "dependentSchemas"
		if sp.LegacyDeps {
			k = "dependencies"
		}
		add(k, jv.V{K: jv.Obj, O: do})
	}
	return jv.V{K: jv.Obj, O: o}
}

// Bytes renders the file content in its format.
func (f *File) Bytes() []byte {
	v := f.Render()
	if f.Spelling.ShuffleKeys != nil {
		v = Shuffle(v, f.Spelling.ShuffleKeys)
	}
	if f.Format == YAML {
		return RenderYAML(v, f.Spelling.YAMLFlow, f.Spelling.YAMLBareKeys, f.Spelling.YAMLPlainStrings)
	}
	return append(v.Indent(), '\n')
}

// Shuffle permutes the members of every object in v (arrays untouched) using
// the integer stream perm as a source of choices (deterministic).
func Shuffle(v jv.V, perm []int) jv.V {
	idx := 0
	next := func(n int) int {
		if len(perm) == 0 || n <= 1 {
			return 0
		}
		x := perm[idx%len(perm)]
		idx++
		if x < 0 {
			x = -x
		}
		return x % n
	}
	var rec func(v jv.V) jv.V
	rec = func(v jv.V) jv.V {
		switch v.K {
		case jv.Arr:
			out := jv.V{K: jv.Arr, A: make([]jv.V, len(v.A))}
			for i := range v.A {
				out.A[i] = rec(v.A[i])
			}
			return out
		case jv.Obj:
			kvs := make([]jv.KV, len(v.O))
			for i := range v.O {
				kvs[i] = jv.KV{K: v.O[i].K, V: rec(v.O[i].V)}
			}
			// Fisher-Yates with drawn choices
			for i := len(kvs) - 1; i > 0; i-- {
				j := next(i + 1)
				kvs[i], kvs[j] = kvs[j], kvs[i]
			}
			return jv.V{K: jv.Obj, O: kvs}
		}
		return v
	}
	return rec(v)
}

// Walk visits n and every node below it (not through ref targets).
func Walk(n *Node, f func(*Node)) {
	if n == nil {
		return
	}
	f(n)
	for _, p := range n.Props {
		Walk(p.Node, f)
	}
	if n.Additional != nil && n.Additional.Schema != nil {
		Walk(n.Additional.Schema, f)
	}
	Walk(n.Items, f)
	for _, b := range n.Branches {
		Walk(b, f)
	}
}

// SortedPropNames returns property names in the order the tool emits fields.
func (n *Node) SortedPropNames() []string {
	out := make([]string, 0, len(n.Props))
	for _, p := range n.Props {
		out = append(out, p.Name)
	}
	sort.Strings(out)
	return out
}

// Clone deep-copies a node tree; ref targets are cloned too (memoised so that
// shared targets stay shared).
func Clone(n *Node) *Node {
	return clone(n, map[*Node]*Node{})
}

func clone(n *Node, memo map[*Node]*Node) *Node {
	if n == nil {
		return nil
	}
	if c, ok := memo[n]; ok {
		return c
	}
	c := *n
	memo[n] = &c
	c.Props = nil
	for _, p := range n.Props {
		c.Props = append(c.Props, Prop{Name: p.Name, Node: clone(p.Node, memo)})
	}
	c.Required = append([]string(nil), n.Required...)
	if n.Additional != nil {
		a := *n.Additional
		a.Schema = clone(n.Additional.Schema, memo)
		c.Additional = &a
	}
	c.Items = clone(n.Items, memo)
	c.Target = clone(n.Target, memo)
	c.Branches = nil
	for _, b := range n.Branches {
		c.Branches = append(c.Branches, clone(b, memo))
	}
	c.EnumVals = append([]jv.V(nil), n.EnumVals...)
	if n.Default != nil {
		d := n.Default.Clone()
		c.Default = &d
	}
	return &c
}
