package model

import (
	"bytes"
	"encoding/json"
	"regexp"
	"strings"

	"verif/harness/jv"
)

func yamlString(b *bytes.Buffer, s string) {
	// JSON string syntax is valid YAML double-quoted syntax for everything
	// encoding/json emits (\" \\ \n \r \t \b \f \uXXXX); DEL and C1 controls are
	// not printable in YAML, escape them explicitly.
	var tmp bytes.Buffer
	enc := json.NewEncoder(&tmp)
	enc.SetEscapeHTML(false)
	_ = enc.Encode(s)
	js := tmp.String()
	js = js[:len(js)-1]
	for _, r := range js {
		switch {
		case r == 0x7f:
			b.WriteString(`\x7F`)
		case r >= 0x80 && r <= 0x9f:
			b.WriteString(`\x`)
			b.WriteString(strings.ToUpper(string("0123456789abcdef"[r>>4]) + string("0123456789abcdef"[r&15])))
		case r == 0xFEFF:
			b.WriteString(`\uFEFF`)
		default:
			b.WriteRune(r)
		}
	}
}

var bareKeyRe = regexp.MustCompile(`^(0|[1-9][0-9]{0,8}|true|false)$`)

// BareKeyOK reports whether a key may be written unquoted so that the YAML
// parser sees a non-string scalar whose canonical text is the key itself.
func BareKeyOK(k string) bool { return bareKeyRe.MatchString(k) }

func yamlKey(b *bytes.Buffer, k string, bare bool) {
	if bare && BareKeyOK(k) {
		b.WriteString(k)
		return
	}
	yamlString(b, k)
}

func yamlScalar(b *bytes.Buffer, v jv.V) {
	switch v.K {
	case jv.Null:
		b.WriteString("null")
	case jv.Bool:
		if v.B {
			b.WriteString("true")
		} else {
			b.WriteString("false")
		}
	case jv.Num:
		// "1e-07" is a float for YAML 1.2 core but some parsers want a dot
		if i := strings.IndexAny(v.N, "eE"); i >= 0 && !strings.Contains(v.N, ".") {
			b.WriteString(v.N[:i] + ".0" + v.N[i:])
		} else {
			b.WriteString(v.N)
		}
	case jv.Str:
		if yamlPlain && plainOK(v.S) {
			b.WriteString(v.S)
			return
		}
		yamlString(b, v.S)
	}
}

// yamlPlain: string values that YAML 1.2 (core schema) reads as strings without quotes are
// written as plain scalars (set for the duration of one RenderYAML call).
var yamlPlain bool

var plainWordRe = regexp.MustCompile(`^[A-Za-z][A-Za-z0-9_-]*( [A-Za-z0-9_-]+)*$`)
var plainDateRe = regexp.MustCompile(`^[0-9]{4}-[0-9]{2}-[0-9]{2}$`)

func plainOK(s string) bool {
	switch strings.ToLower(s) {
	case "true", "false", "null", "yes", "no", "on", "off", "y", "n", "nan", "inf":
		return false
	}
	return plainWordRe.MatchString(s) || plainDateRe.MatchString(s)
}

func yamlFlow(b *bytes.Buffer, v jv.V, bare bool) {
	switch v.K {
	case jv.Arr:
		b.WriteString("[")
		for i, e := range v.A {
			if i > 0 {
				b.WriteString(", ")
			}
			yamlFlow(b, e, bare)
		}
		b.WriteString("]")
	case jv.Obj:
		b.WriteString("{")
		for i, kv := range v.O {
			if i > 0 {
				b.WriteString(", ")
			}
			yamlKey(b, kv.K, bare)
			b.WriteString(": ")
			yamlFlow(b, kv.V, bare)
		}
		b.WriteString("}")
	default:
		yamlScalar(b, v)
	}
}

func yamlBlock(b *bytes.Buffer, v jv.V, indent int, bare bool) {
	pad := strings.Repeat("  ", indent)
	switch v.K {
	case jv.Obj:
		for _, kv := range v.O {
			b.WriteString(pad)
			yamlKey(b, kv.K, bare)
			b.WriteString(":")
			yamlBlockValue(b, kv.V, indent, bare)
		}
	case jv.Arr:
		for _, e := range v.A {
			b.WriteString(pad)
			b.WriteString("-")
			yamlBlockValue(b, e, indent, bare)
		}
	}
}

func yamlBlockValue(b *bytes.Buffer, v jv.V, indent int, bare bool) {
	switch {
	case v.K == jv.Obj && len(v.O) == 0:
		b.WriteString(" {}\n")
	case v.K == jv.Arr && len(v.A) == 0:
		b.WriteString(" []\n")
	case v.K == jv.Obj || v.K == jv.Arr:
		b.WriteString("\n")
		yamlBlock(b, v, indent+1, bare)
	default:
		b.WriteString(" ")
		yamlScalar(b, v)
		b.WriteString("\n")
	}
}

// RenderYAML writes v as YAML: flow style (JSON-like on one line) or block
// style with every string double-quoted.
func RenderYAML(v jv.V, flow, bareKeys bool, plainStrings ...bool) []byte {
	yamlPlain = len(plainStrings) > 0 && plainStrings[0] && !flow
	defer func() { yamlPlain = false }()
	var b bytes.Buffer
	if flow || (v.K != jv.Obj && v.K != jv.Arr) || (v.K == jv.Obj && len(v.O) == 0) || (v.K == jv.Arr && len(v.A) == 0) {
		yamlFlow(&b, v, bareKeys)
		b.WriteString("\n")
		return b.Bytes()
	}
	yamlBlock(&b, v, 0, bareKeys)
	return b.Bytes()
}
