package gen

import (
	"bytes"
	"context"
	"crypto/sha256"
	"encoding/hex"
	"fmt"
	"io/fs"
	"os"
	"os/exec"
	"path/filepath"
	"sort"
	"sync"
	"time"
)

var (
	cliOnce sync.Once
	cliPath string
	cliErr  error
)

func harnessDir() string {
	if d := os.Getenv("VERIF_HARNESS"); d != "" {
		return d
	}
	if d := os.Getenv("VERIF_DIR"); d != "" {
		return d + "/harness"
	}
	return "/verif/harness"
}

// CLI builds the real main of the tool from /repo's current tree (once per
// process) and returns the binary path.
func CLI() (string, error) {
	cliOnce.Do(func() {
		dir, err := os.MkdirTemp("", "verif-cli-")
		if err != nil {
			cliErr = err
			return
		}
		out := filepath.Join(dir, "go-jsonschema")
		cmd := exec.Command("go", "build", "-o", out, "github.com/atombender/go-jsonschema")
		cmd.Dir = harnessDir()
		cmd.Env = append(os.Environ(), "GOFLAGS=-mod=mod", "GOPROXY=off", "GOSUMDB=off", "GOTOOLCHAIN=local", "GOWORK=off")
		b, err := cmd.CombinedOutput()
		if err != nil {
			cliErr = fmt.Errorf("building the CLI: %v: %s", err, b)
			return
		}
		cliPath = out
	})
	return cliPath, cliErr
}

// CleanupCLI removes the built binary (TestMain).
func CleanupCLI() {
	if cliPath != "" {
		_ = os.RemoveAll(filepath.Dir(cliPath))
	}
}

// FileState is one entry of a directory snapshot.
type FileState struct {
	Mode    fs.FileMode
	Size    int64
	ModTime time.Time
	Hash    string
	Link    string
}

// Snapshot records every path below dir (bytes, mode, mtime).
func Snapshot(dir string) (map[string]FileState, error) {
	out := map[string]FileState{}
	err := filepath.Walk(dir, func(p string, info fs.FileInfo, err error) error {
		if err != nil {
			return err
		}
		rel, _ := filepath.Rel(dir, p)
		st := FileState{Mode: info.Mode(), ModTime: info.ModTime()}
		if info.Mode()&fs.ModeSymlink != 0 {
			st.Link, _ = os.Readlink(p)
		} else if info.Mode().IsRegular() {
			b, err := os.ReadFile(p)
			if err != nil {
				return err
			}
			h := sha256.Sum256(b)
			st.Hash = hex.EncodeToString(h[:8])
			st.Size = info.Size()
		}
		out[rel] = st
		return nil
	})
	return out, err
}

// DiffSnapshots lists paths created, removed or modified (content, mode or
// mtime; directory mtimes are ignored unless an entry changed).
func DiffSnapshots(before, after map[string]FileState) []string {
	var out []string
	for p, a := range after {
		b, ok := before[p]
		if !ok {
			out = append(out, "created "+p)
			continue
		}
		if a.Mode.IsDir() {
			continue
		}
		if a.Hash != b.Hash || a.Mode != b.Mode || a.Link != b.Link {
			out = append(out, "modified "+p)
		} else if !a.ModTime.Equal(b.ModTime) {
			out = append(out, "touched "+p)
		}
	}
	for p := range before {
		if _, ok := after[p]; !ok {
			out = append(out, "removed "+p)
		}
	}
	sort.Strings(out)
	return out
}

// CLIResult is what one CLI invocation did.
type CLIResult struct {
	Exit     int
	Stdout   string
	Stderr   string
	TimedOut bool
	Changes  []string          // filesystem changes below the sandbox dir
	Outputs  map[string]string // content of files created/modified (relative path)
	Dir      string
}

// RunCLI materialises the case in a fresh sandbox directory (plus optional
// pre-existing files), runs the real CLI there with cwd = sandbox, and reports
// exit status, streams and filesystem effects. extraArgs replace the derived
// argument list when non-nil.
func RunCLI(c *Case, pre map[string]string, argv []string, timeout time.Duration, keepDir bool) (*CLIResult, error) {
	bin, err := CLI()
	if err != nil {
		return nil, err
	}
	dir, err := os.MkdirTemp("", "verif-clisb-")
	if err != nil {
		return nil, err
	}
	if !keepDir {
		defer os.RemoveAll(dir)
	}
	if err := c.WriteFiles(dir); err != nil {
		return nil, err
	}
	for rel, content := range pre {
		p := filepath.Join(dir, rel)
		_ = os.MkdirAll(filepath.Dir(p), 0o755)
		if err := os.WriteFile(p, []byte(content), 0o644); err != nil {
			return nil, err
		}
		old := time.Now().Add(-48 * time.Hour)
		_ = os.Chtimes(p, old, old)
	}
	before, err := Snapshot(dir)
	if err != nil {
		return nil, err
	}
	if argv == nil {
		argv = append(c.Config.Args(), c.Inputs...)
	}
	ctx, cancel := context.WithTimeout(context.Background(), timeout)
	defer cancel()
	cmd := exec.CommandContext(ctx, bin, argv...)
	cmd.Dir = dir
	devnull, _ := os.Open(os.DevNull)
	defer devnull.Close()
	cmd.Stdin = devnull
	var so, se bytes.Buffer
	cmd.Stdout, cmd.Stderr = &so, &se
	runErr := cmd.Run()
	res := &CLIResult{Stdout: so.String(), Stderr: se.String(), Dir: dir, Outputs: map[string]string{}}
	if ctx.Err() == context.DeadlineExceeded {
		res.TimedOut = true
	}
	if runErr != nil {
		if ee, ok := runErr.(*exec.ExitError); ok {
			res.Exit = ee.ExitCode()
		} else if !res.TimedOut {
			return nil, runErr
		}
	}
	after, err := Snapshot(dir)
	if err != nil {
		return nil, err
	}
	res.Changes = DiffSnapshots(before, after)
	for p, a := range after {
		b, ok := before[p]
		if a.Mode.IsRegular() && (!ok || a.Hash != b.Hash) {
			data, _ := os.ReadFile(filepath.Join(dir, p))
			res.Outputs[p] = string(data)
		}
	}
	return res, nil
}
