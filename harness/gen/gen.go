// Package gen runs the tool's generator in-process (E-static) on a case made
// of rendered files plus a serialisable configuration, and builds/runs the real
// CLI (E-cli).
package gen

import (
	"fmt"
	"os"
	"path/filepath"
	"runtime/debug"
	"sort"
	"strings"

	"github.com/atombender/go-jsonschema/pkg/generator"
)

type Mapping struct {
	ID       string `json:"id"`
	Package  string `json:"package,omitempty"`
	Output   string `json:"output,omitempty"`
	RootType string `json:"root_type,omitempty"`
}

// Config mirrors generator.Config / the CLI flags in serialisable form.
type Config struct {
	ExtraImports        bool      `json:"extra_imports,omitempty"`
	OnlyModels          bool      `json:"only_models,omitempty"`
	MinSizedInts        bool      `json:"min_sized_ints,omitempty"`
	StructNameFromTitle bool      `json:"struct_name_from_title,omitempty"`
	Tags                []string  `json:"tags,omitempty"`
	Capitalizations     []string  `json:"capitalizations,omitempty"`
	ResolveExtensions   []string  `json:"resolve_extensions,omitempty"`
	YAMLExtensions      []string  `json:"yaml_extensions,omitempty"`
	DefaultPackage      string    `json:"default_package,omitempty"`
	DefaultOutput       string    `json:"default_output,omitempty"`
	Mappings            []Mapping `json:"mappings,omitempty"`
}

type FileText struct {
	RelPath string `json:"path"`
	Text    string `json:"text"`
}

// Case is everything one tool invocation sees.
type Case struct {
	Files  []FileText `json:"files"`
	Inputs []string   `json:"inputs"` // relative paths passed as arguments, in order
	Config Config     `json:"config"`
}

type Result struct {
	Err      string            `json:"err,omitempty"`
	Panic    string            `json:"panic,omitempty"`
	Sources  map[string]string `json:"sources,omitempty"`
	Warnings []string          `json:"warnings,omitempty"`
}

func (r *Result) OK() bool { return r.Err == "" && r.Panic == "" }

// FormatFailed reports whether the tool admitted it could not gofmt its output.
func (r *Result) FormatFailed() bool {
	for _, w := range r.Warnings {
		if strings.Contains(w, "could not be formatted") {
			return true
		}
	}
	return false
}

func (r *Result) SortedNames() []string {
	names := make([]string, 0, len(r.Sources))
	for n := range r.Sources {
		names = append(names, n)
	}
	sort.Strings(names)
	return names
}

func (c Config) ToGenerator(warn func(string)) generator.Config {
	tags := c.Tags
	if tags == nil {
		tags = []string{"json", "yaml", "mapstructure"}
	}
	yext := c.YAMLExtensions
	if yext == nil {
		yext = []string{".yml", ".yaml"}
	}
	gc := generator.Config{
		Warner:              warn,
		ExtraImports:        c.ExtraImports,
		Capitalizations:     c.Capitalizations,
		DefaultOutputName:   c.DefaultOutput,
		DefaultPackageName:  c.DefaultPackage,
		SchemaMappings:      []generator.SchemaMapping{},
		ResolveExtensions:   c.ResolveExtensions,
		YAMLExtensions:      yext,
		StructNameFromTitle: c.StructNameFromTitle,
		Tags:                tags,
		OnlyModels:          c.OnlyModels,
		MinSizedInts:        c.MinSizedInts,
	}
	for _, m := range c.Mappings {
		gc.SchemaMappings = append(gc.SchemaMappings, generator.SchemaMapping{
			SchemaID: m.ID, PackageName: m.Package, OutputName: m.Output, RootType: m.RootType,
		})
	}
	return gc
}

// Args renders the configuration as CLI flags (without the file arguments).
func (c Config) Args() []string {
	var a []string
	if c.ExtraImports {
		a = append(a, "--extra-imports")
	}
	if c.OnlyModels {
		a = append(a, "--only-models")
	}
	if c.MinSizedInts {
		a = append(a, "--min-sized-ints")
	}
	if c.StructNameFromTitle {
		a = append(a, "--struct-name-from-title")
	}
	if c.Tags != nil {
		a = append(a, "--tags", strings.Join(c.Tags, ","))
	}
	for _, s := range c.Capitalizations {
		a = append(a, "--capitalization", s)
	}
	for _, s := range c.ResolveExtensions {
		a = append(a, "--resolve-extension", s)
	}
	if c.YAMLExtensions != nil {
		a = append(a, "--yaml-extension", strings.Join(c.YAMLExtensions, ","))
	}
	if c.DefaultPackage != "" {
		a = append(a, "-p", c.DefaultPackage)
	}
	if c.DefaultOutput != "" {
		a = append(a, "-o", c.DefaultOutput)
	}
	for _, m := range c.Mappings {
		if m.Package != "" {
			a = append(a, "--schema-package", m.ID+"="+m.Package)
		}
		if m.Output != "" {
			a = append(a, "--schema-output", m.ID+"="+m.Output)
		}
		if m.RootType != "" {
			a = append(a, "--schema-root-type", m.ID+"="+m.RootType)
		}
	}
	return a
}

// RootToken is replaced by the absolute path of the case directory when the
// files are materialised (absolute-path and file:// references).
const RootToken = "@@ROOT@@"

// WriteFiles materialises the case's files under dir.
func (c *Case) WriteFiles(dir string) error {
	for _, f := range c.Files {
		p := filepath.Join(dir, f.RelPath)
		if err := os.MkdirAll(filepath.Dir(p), 0o755); err != nil {
			return err
		}
		text := strings.ReplaceAll(f.Text, RootToken, dir)
		if err := os.WriteFile(p, []byte(text), 0o644); err != nil {
			return err
		}
	}
	return nil
}

// Run materialises the case in a fresh temporary directory and runs the
// generator in-process; the directory is removed afterwards.
func Run(c *Case) Result {
	dir, err := os.MkdirTemp("", "verif-gen-")
	if err != nil {
		return Result{Err: "harness: " + err.Error()}
	}
	defer os.RemoveAll(dir)
	if err := c.WriteFiles(dir); err != nil {
		return Result{Err: "harness: " + err.Error()}
	}
	return RunIn(dir, c, false)
}

// RunIn runs the generator in-process on files already present under dir.
// With relative=true the inputs are passed as relative paths after a chdir
// (not safe for concurrent use).
func RunIn(dir string, c *Case, relative bool) (res Result) {
	var warnings []string
	defer func() {
		if r := recover(); r != nil {
			res = Result{Panic: fmt.Sprintf("%v\n%s", r, trimStack(debug.Stack())), Warnings: warnings}
		}
	}()
	if relative {
		cwd, err := os.Getwd()
		if err != nil {
			return Result{Err: "harness: " + err.Error()}
		}
		if err := os.Chdir(dir); err != nil {
			return Result{Err: "harness: " + err.Error()}
		}
		defer func() { _ = os.Chdir(cwd) }()
	}
	g, err := generator.New(c.Config.ToGenerator(func(s string) { warnings = append(warnings, s) }))
	if err != nil {
		return Result{Err: err.Error(), Warnings: warnings}
	}
	for _, in := range c.Inputs {
		p := in
		if !relative && !filepath.IsAbs(in) {
			p = filepath.Join(dir, in)
		}
		if err := g.DoFile(p); err != nil {
			return Result{Err: err.Error(), Warnings: warnings}
		}
	}
	srcs := g.Sources()
	out := make(map[string]string, len(srcs))
	for k, v := range srcs {
		out[k] = string(v)
	}
	return Result{Sources: out, Warnings: warnings}
}

func trimStack(b []byte) string {
	s := string(b)
	lines := strings.Split(s, "\n")
	var keep []string
	for i := 0; i < len(lines); i++ {
		if strings.Contains(lines[i], "go-jsonschema") || strings.Contains(lines[i], "/repo/") {
			keep = append(keep, strings.TrimSpace(lines[i]))
		}
		if len(keep) >= 12 {
			break
		}
	}
	return strings.Join(keep, "\n")
}
