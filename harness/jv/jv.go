// Package jv is a small ordered JSON value model. Numbers are kept as their
// literal text so that 1, 1.0 and 1e0 stay distinguishable and integers beyond
// 2^53 survive; object members keep their order.
package jv

import (
	"bytes"
	"encoding/json"
	"fmt"
	"io"
	"math"
	"math/big"
	"sort"
	"strconv"
	"strings"
)

type Kind uint8

const (
	Null Kind = iota
	Bool
	Num
	Str
	Arr
	Obj
)

func (k Kind) String() string {
	return [...]string{"null", "boolean", "number", "string", "array", "object"}[k]
}

type KV struct {
	K string
	V V
}

type V struct {
	K Kind
	B bool
	N string // number literal
	S string
	A []V
	O []KV
}

func NullV() V               { return V{K: Null} }
func BoolV(b bool) V         { return V{K: Bool, B: b} }
func StrV(s string) V        { return V{K: Str, S: s} }
func NumLit(l string) V      { return V{K: Num, N: l} }
func IntV(i int64) V         { return V{K: Num, N: strconv.FormatInt(i, 10)} }
func UintV(i uint64) V       { return V{K: Num, N: strconv.FormatUint(i, 10)} }
func ArrV(a ...V) V          { return V{K: Arr, A: append([]V{}, a...)} }
func ObjV(kv ...KV) V        { return V{K: Obj, O: append([]KV{}, kv...)} }
func BigV(i *big.Int) V      { return V{K: Num, N: i.String()} }
func Field(k string, v V) KV { return KV{K: k, V: v} }

// FloatV renders f with the shortest literal that round-trips; integral values
// are written without fraction or exponent when |f| < 1e21.
func FloatV(f float64) V {
	if math.IsInf(f, 0) || math.IsNaN(f) {
		panic("jv: non-finite float")
	}
	if f == math.Trunc(f) && math.Abs(f) < 1e21 {
		return V{K: Num, N: strconv.FormatFloat(f, 'f', -1, 64)}
	}
	return V{K: Num, N: strconv.FormatFloat(f, 'g', -1, 64)}
}

// Get returns the member k of an object.
func (v V) Get(k string) (V, bool) {
	if v.K != Obj {
		return V{}, false
	}
	for _, kv := range v.O {
		if kv.K == k {
			return kv.V, true
		}
	}
	return V{}, false
}

// Set returns a copy of object v with member k set (appended when new).
func (v V) Set(k string, x V) V {
	out := V{K: Obj, O: make([]KV, 0, len(v.O)+1)}
	done := false
	for _, kv := range v.O {
		if kv.K == k {
			out.O = append(out.O, KV{k, x})
			done = true
		} else {
			out.O = append(out.O, kv)
		}
	}
	if !done {
		out.O = append(out.O, KV{k, x})
	}
	return out
}

// Del returns a copy of object v without member k.
func (v V) Del(k string) V {
	out := V{K: Obj, O: make([]KV, 0, len(v.O))}
	for _, kv := range v.O {
		if kv.K != k {
			out.O = append(out.O, kv)
		}
	}
	return out
}

func (v V) Has(k string) bool { _, ok := v.Get(k); return ok }

// Clone deep-copies v.
func (v V) Clone() V {
	out := v
	if v.A != nil {
		out.A = make([]V, len(v.A))
		for i := range v.A {
			out.A[i] = v.A[i].Clone()
		}
	}
	if v.O != nil {
		out.O = make([]KV, len(v.O))
		for i := range v.O {
			out.O[i] = KV{v.O[i].K, v.O[i].V.Clone()}
		}
	}
	return out
}

func writeString(b *bytes.Buffer, s string) {
	// encoding/json with HTML escaping off; invalid UTF-8 becomes U+FFFD, so
	// callers that need raw bytes must not go through here.
	enc := json.NewEncoder(b)
	enc.SetEscapeHTML(false)
	_ = enc.Encode(s)
	b.Truncate(b.Len() - 1) // trailing newline
}

func (v V) write(b *bytes.Buffer) {
	switch v.K {
	case Null:
		b.WriteString("null")
	case Bool:
		if v.B {
			b.WriteString("true")
		} else {
			b.WriteString("false")
		}
	case Num:
		b.WriteString(v.N)
	case Str:
		writeString(b, v.S)
	case Arr:
		b.WriteByte('[')
		for i, e := range v.A {
			if i > 0 {
				b.WriteByte(',')
			}
			e.write(b)
		}
		b.WriteByte(']')
	case Obj:
		b.WriteByte('{')
		for i, kv := range v.O {
			if i > 0 {
				b.WriteByte(',')
			}
			writeString(b, kv.K)
			b.WriteByte(':')
			kv.V.write(b)
		}
		b.WriteByte('}')
	}
}

// Marshal renders compact JSON.
func (v V) Marshal() []byte {
	var b bytes.Buffer
	v.write(&b)
	return b.Bytes()
}

func (v V) String() string { return string(v.Marshal()) }

// Indent renders indented JSON.
func (v V) Indent() []byte {
	var out bytes.Buffer
	if err := json.Indent(&out, v.Marshal(), "", "  "); err != nil {
		return v.Marshal()
	}
	return out.Bytes()
}

// Parse parses exactly one JSON value (order- and literal-preserving).
func Parse(data []byte) (V, error) {
	dec := json.NewDecoder(bytes.NewReader(data))
	dec.UseNumber()
	v, err := parseValue(dec)
	if err != nil {
		return V{}, err
	}
	if _, err := dec.Token(); err != io.EOF {
		return V{}, fmt.Errorf("jv: trailing data")
	}
	return v, nil
}

func MustParse(s string) V {
	v, err := Parse([]byte(s))
	if err != nil {
		panic(fmt.Sprintf("jv.MustParse(%q): %v", s, err))
	}
	return v
}

func parseValue(dec *json.Decoder) (V, error) {
	tok, err := dec.Token()
	if err != nil {
		return V{}, err
	}
	return parseFrom(dec, tok)
}

func parseFrom(dec *json.Decoder, tok json.Token) (V, error) {
	switch t := tok.(type) {
	case nil:
		return NullV(), nil
	case bool:
		return BoolV(t), nil
	case json.Number:
		return NumLit(string(t)), nil
	case string:
		return StrV(t), nil
	case json.Delim:
		switch t {
		case '[':
			out := V{K: Arr, A: []V{}}
			for dec.More() {
				e, err := parseValue(dec)
				if err != nil {
					return V{}, err
				}
				out.A = append(out.A, e)
			}
			if _, err := dec.Token(); err != nil {
				return V{}, err
			}
			return out, nil
		case '{':
			out := V{K: Obj, O: []KV{}}
			for dec.More() {
				kt, err := dec.Token()
				if err != nil {
					return V{}, err
				}
				k, ok := kt.(string)
				if !ok {
					return V{}, fmt.Errorf("jv: non-string key")
				}
				e, err := parseValue(dec)
				if err != nil {
					return V{}, err
				}
				out.O = append(out.O, KV{k, e})
			}
			if _, err := dec.Token(); err != nil {
				return V{}, err
			}
			return out, nil
		}
	}
	return V{}, fmt.Errorf("jv: unexpected token %v", tok)
}

// Rat returns the exact value of a number literal.
func Rat(lit string) *big.Rat {
	r, ok := new(big.Rat).SetString(lit)
	if !ok {
		panic("jv: bad number literal " + lit)
	}
	return r
}

// IsIntLiteral reports whether lit is written in integer notation
// (optional minus, digits only).
func IsIntLiteral(lit string) bool {
	s := strings.TrimPrefix(lit, "-")
	if s == "" {
		return false
	}
	for _, c := range s {
		if c < '0' || c > '9' {
			return false
		}
	}
	return true
}

// Equal is JSON equality: numbers by exact value, objects as unordered maps.
func Equal(a, b V) bool {
	if a.K != b.K {
		return false
	}
	switch a.K {
	case Null:
		return true
	case Bool:
		return a.B == b.B
	case Num:
		return Rat(a.N).Cmp(Rat(b.N)) == 0
	case Str:
		return a.S == b.S
	case Arr:
		if len(a.A) != len(b.A) {
			return false
		}
		for i := range a.A {
			if !Equal(a.A[i], b.A[i]) {
				return false
			}
		}
		return true
	case Obj:
		if len(a.O) != len(b.O) {
			return false
		}
		for _, kv := range a.O {
			bv, ok := b.Get(kv.K)
			if !ok || !Equal(kv.V, bv) {
				return false
			}
		}
		return true
	}
	return false
}

// SortedKeys returns the member names of an object, sorted.
func (v V) SortedKeys() []string {
	ks := make([]string, 0, len(v.O))
	for _, kv := range v.O {
		ks = append(ks, kv.K)
	}
	sort.Strings(ks)
	return ks
}

// Float64 converts a number literal to the nearest float64.
func Float64(lit string) float64 {
	f, _ := strconv.ParseFloat(lit, 64)
	return f
}
