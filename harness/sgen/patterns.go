package sgen

import (
	"strings"

	"pgregory.net/rapid"
)

// Pat is a pattern whose meaning is identical in ECMA-262 and RE2 (R6) with
// constructive generators: Build yields a matching string of exactly n runes,
// Bad a non-matching one of exactly n runes (ok=false when none exists).
type Pat struct {
	Re       string
	Min, Max int // feasible rune lengths of matching strings; Max -1 = unbounded
	Build    func(t *rapid.T, n int) string
	Bad      func(t *rapid.T, n int) (string, bool)
}

// Feasible reports whether some matching string has a length in [lo,hi]
// (hi -1 = unbounded).
func (p Pat) Feasible(lo, hi int) bool {
	if hi >= 0 && hi < p.Min {
		return false
	}
	if p.Max >= 0 && lo > p.Max {
		return false
	}
	return true
}

// Clamp returns the intersection of the pattern's feasible lengths with
// [lo,hi].
func (p Pat) Clamp(lo, hi int) (int, int) {
	if lo < p.Min {
		lo = p.Min
	}
	if p.Max >= 0 && (hi < 0 || hi > p.Max) {
		hi = p.Max
	}
	return lo, hi
}

func letters(t *rapid.T, n int, alphabet string, label string) string {
	if n <= 0 {
		return ""
	}
	rs := []rune(alphabet)
	var sb strings.Builder
	for i := 0; i < n; i++ {
		sb.WriteRune(rs[rapid.IntRange(0, len(rs)-1).Draw(t, label)])
	}
	return sb.String()
}

func replaceAt(s string, i int, r rune) string {
	rs := []rune(s)
	rs[i] = r
	return string(rs)
}

const lower = "abcdefghijklmnopqrstuvwxyz"
const digits = "0123456789"
const wide = "aé日😀zßж" // 1-, 2-, 3- and 4-byte runes

var Patterns = []Pat{
	{Re: `^[a-z]+$`, Min: 1, Max: -1,
		Build: func(t *rapid.T, n int) string { return letters(t, n, lower, "pl") },
		Bad: func(t *rapid.T, n int) (string, bool) {
			if n < 1 {
				return "", true // empty string does not match
			}
			return replaceAt(letters(t, n, lower, "pl"), rapid.IntRange(0, n-1).Draw(t, "pi"), 'A'), true
		}},
	{Re: `^[0-9]{2,4}$`, Min: 2, Max: 4,
		Build: func(t *rapid.T, n int) string { return letters(t, n, digits, "pd") },
		Bad: func(t *rapid.T, n int) (string, bool) {
			if n < 1 {
				return "", true
			}
			return replaceAt(letters(t, n, digits, "pd"), rapid.IntRange(0, n-1).Draw(t, "pi"), 'x'), true
		}},
	{Re: `^\d+$`, Min: 1, Max: -1,
		Build: func(t *rapid.T, n int) string { return letters(t, n, digits, "pd") },
		Bad: func(t *rapid.T, n int) (string, bool) {
			if n < 1 {
				return "", true
			}
			return replaceAt(letters(t, n, digits, "pd"), rapid.IntRange(0, n-1).Draw(t, "pi"), 'a'), true
		}},
	{Re: `^[A-Z][a-z]*$`, Min: 1, Max: -1,
		Build: func(t *rapid.T, n int) string { return letters(t, 1, "ABCXYZ", "pu") + letters(t, n-1, lower, "pl") },
		Bad: func(t *rapid.T, n int) (string, bool) {
			if n < 1 {
				return "", true
			}
			return letters(t, n, lower, "pl"), true
		}},
	{Re: `^(foo|bar)-[0-9]+$`, Min: 5, Max: -1,
		Build: func(t *rapid.T, n int) string {
			return rapid.SampledFrom([]string{"foo-", "bar-"}).Draw(t, "pf") + letters(t, n-4, digits, "pd")
		},
		Bad: func(t *rapid.T, n int) (string, bool) {
			if n >= 5 {
				return "baz-" + letters(t, n-4, digits, "pd"), true
			}
			return letters(t, n, "q", "pq"), true
		}},
	{Re: `^\w+\.\w+$`, Min: 3, Max: -1,
		Build: func(t *rapid.T, n int) string {
			k := rapid.IntRange(1, n-2).Draw(t, "pk")
			return letters(t, k, "ab_09Z", "pw") + "." + letters(t, n-1-k, "ab_09Z", "pw")
		},
		Bad: func(t *rapid.T, n int) (string, bool) { return letters(t, n, "ab_09Z", "pw"), true }},
	{Re: `^a"b%c\\d$`, Min: 7, Max: 7,
		Build: func(t *rapid.T, n int) string { return `a"b%c\d` },
		Bad:   func(t *rapid.T, n int) (string, bool) { return strings.Repeat("q", n), true },
	},
	{Re: `[0-9]`, Min: 1, Max: -1,
		Build: func(t *rapid.T, n int) string {
			return replaceAt(letters(t, n, wide, "pw"), rapid.IntRange(0, n-1).Draw(t, "pi"), rune('0'+rapid.IntRange(0, 9).Draw(t, "pd")))
		},
		Bad: func(t *rapid.T, n int) (string, bool) { return letters(t, n, wide, "pw"), true }},
	{Re: `^.{3,}$`, Min: 3, Max: -1,
		Build: func(t *rapid.T, n int) string { return letters(t, n, wide, "pw") },
		Bad: func(t *rapid.T, n int) (string, bool) {
			if n < 3 {
				return letters(t, n, wide, "pw"), true
			}
			return replaceAt(letters(t, n, wide, "pw"), rapid.IntRange(0, n-1).Draw(t, "pi"), '\n'), true
		}},
	// the "anything" patterns schema editors write on every string: `.` excludes line
	// terminators and `$` is the end of the input in ECMA-262 and RE2 alike, so these are
	// NOT catch-alls
	{Re: `^.*$`, Min: 0, Max: -1,
		Build: func(t *rapid.T, n int) string { return letters(t, n, wide, "pw") },
		Bad: func(t *rapid.T, n int) (string, bool) {
			if n < 1 {
				return "", false
			}
			return replaceAt(letters(t, n, wide, "pw"), rapid.IntRange(0, n-1).Draw(t, "pi"), '\n'), true
		}},
	{Re: `^(.*)$`, Min: 0, Max: -1,
		Build: func(t *rapid.T, n int) string { return letters(t, n, wide, "pw") },
		Bad: func(t *rapid.T, n int) (string, bool) {
			if n < 1 {
				return "", false
			}
			return replaceAt(letters(t, n, wide, "pw"), rapid.IntRange(0, n-1).Draw(t, "pi"), '\n'), true
		}},
	{Re: `^[^@]+@[^@]+$`, Min: 3, Max: -1,
		Build: func(t *rapid.T, n int) string {
			k := rapid.IntRange(1, n-2).Draw(t, "pk")
			return letters(t, k, wide, "pw") + "@" + letters(t, n-1-k, wide, "pw")
		},
		Bad: func(t *rapid.T, n int) (string, bool) { return letters(t, n, wide, "pw"), true }},
	{Re: `^x*y$`, Min: 1, Max: -1,
		Build: func(t *rapid.T, n int) string { return strings.Repeat("x", n-1) + "y" },
		Bad:   func(t *rapid.T, n int) (string, bool) { return strings.Repeat("z", n), true }},
}

// PatByRe finds a curated pattern.
func PatByRe(re string) (Pat, bool) {
	for _, p := range Patterns {
		if p.Re == re {
			return p, true
		}
	}
	return Pat{}, false
}
