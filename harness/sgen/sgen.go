// Package sgen holds the rapid-driven schema generators ("supported set" of
// DESIGN.md section 1.2). Every random choice is a rapid draw.
package sgen

import (
	"fmt"
	"strings"

	"pgregory.net/rapid"

	"verif/harness/jv"
	"verif/harness/model"
)

// Profile steers the generator. Weights are relative; zero disables.
type Profile struct {
	MaxDepth   int // nesting of objects/arrays below the root
	MinProps   int
	MaxProps   int
	MaxDefs    int
	ArrayDepth int // max nesting of arrays in arrays

	WString, WInteger, WNumber, WBoolean, WObject, WArray, WEnum, WRef, WAny, WNull, WAllOf, WAnyOf, WMap int

	PConstraint float64 // probability that each applicable constraint keyword is present
	PNullable   float64
	PRequired   float64
	PDefault    float64
	PFormat     float64
	PDesc       float64
	PAdditional float64 // typed additionalProperties on objects with properties
	PExt        float64

	HostileText                  bool // descriptions/titles from arbitrary Unicode and hostile constants
	SafeNames                    bool // property/definition names from the safe ASCII alphabet
	InlineItemConstraints        bool // allow constraints on inline primitive array items
	MixedEnums                   bool
	NumericGrid                  bool // numeric constants from a small grid (ties likely)
	IntOnlyBounds                bool // integer schemas get integral bounds only
	FractionalIntBounds          bool // integer schemas may state non-integral bounds
	NullItems                    bool // arrays of null-typed items
	MinSizedBounds               bool // integer bounds near sized-int limits
	DefsOnlyPrimitivesAndObjects bool
	DefWeights                   map[string]int // overrides the kinds of definitions
	MinDefs                      int
	// MixedBranches: allOf/anyOf branches may be of any kind (null, primitive,
	// enum, array, reference to any definition, nested object) and composites
	// also appear as array items and definitions. No value oracle covers these;
	// they serve the compile-level property only.
	MixedBranches bool
	// UnmappedFormats: constrained strings may also state a format without Go type (email, uri, ...).
	UnmappedFormats bool
	// UntypedAdditional: additionalProperties true / {} next to declared properties.
	UntypedAdditional bool

	// Sat reports whether a numeric node admits some value; unsatisfiable draws
	// are repaired (constraints dropped) unless KeepUnsat.
	Sat       func(*model.Node) bool
	KeepUnsat bool

	// Avoid reports whether a known-finding exclusion switch is on.
	Avoid func(string) bool
	// Excluded counts draws changed because of a switch.
	Excluded map[string]int
}

func (p *Profile) avoid(sw string) bool {
	if p.Avoid != nil && p.Avoid(sw) {
		if p.Excluded != nil {
			p.Excluded[sw]++
		}
		return true
	}
	return false
}

// AvoidQuiet tests a switch without counting.
func (p *Profile) AvoidQuiet(sw string) bool { return p.Avoid != nil && p.Avoid(sw) }

func chance(t *rapid.T, p float64, label string) bool {
	if p <= 0 {
		return false
	}
	if p >= 1 {
		return true
	}
	return rapid.IntRange(0, 999).Draw(t, label) < int(p*1000)
}

// Ctx is the state of one file generation.
type Ctx struct {
	P    *Profile
	Defs []model.Def
	used map[string]bool
}

var safeNameGen = rapid.StringMatching(`[a-z][a-z0-9]{0,3}([A-Z_][a-z0-9]{1,3})?`)

var goKeywords = map[string]bool{"type": true, "func": true, "var": true, "map": true, "range": true, "go": true, "if": true, "for": true}

// Name draws a property / definition name that does not case-fold onto a
// sibling (R4).
func (c *Ctx) Name(t *rapid.T, siblings map[string]bool) string {
	for i := 0; ; i++ {
		n := safeNameGen.Draw(t, "name")
		k := strings.ToLower(strings.ReplaceAll(n, "_", ""))
		if !siblings[k] && k != "additionalproperties" && k != "value" {
			siblings[k] = true
			return n
		}
		if i > 50 {
			n = fmt.Sprintf("p%d", len(siblings))
			siblings[n] = true
			return n
		}
	}
}

var hostileTexts = []string{
	"line one\nline two", "carriage\rreturn", "tab\there", "ends comment */ now", "// nested comment",
	"back`quote", `double"quote`, `back\slash`, "percent %s %d %!", "trailing space ", " leading space",
	"unicode \u2028 line sep", "nul \x00 byte", strings.Repeat("longword", 30), "多字节 テキスト ✓",
	"/* open comment", "*/", "\n", "\n\nleading newlines", "ends with newline\n", "{{template}}", "`", "\"",
	"\\", "\t", "a\vb\fc", "\u0085 next line", "\ufeff bom", "emoji 😀 text",
}

func (c *Ctx) text(t *rapid.T, label string) string {
	if c.P.HostileText {
		switch rapid.IntRange(0, 3).Draw(t, label+"k") {
		case 0:
			return rapid.SampledFrom(hostileTexts).Draw(t, label+"h")
		case 1:
			return rapid.StringN(1, 40, -1).Draw(t, label+"u")
		case 2:
			return rapid.SampledFrom(hostileTexts).Draw(t, label+"h1") + " " + rapid.SampledFrom(hostileTexts).Draw(t, label+"h2")
		}
	}
	return rapid.StringMatching(`[A-Za-z][A-Za-z ,.]{0,30}`).Draw(t, label)
}

type kindChoice struct {
	k string
	w int
}

func pick(t *rapid.T, label string, cs []kindChoice) string {
	total := 0
	for _, c := range cs {
		if c.w > 0 {
			total += c.w
		}
	}
	if total == 0 {
		return "string"
	}
	x := rapid.IntRange(0, total-1).Draw(t, label)
	for _, c := range cs {
		if c.w <= 0 {
			continue
		}
		if x < c.w {
			return c.k
		}
		x -= c.w
	}
	return "string"
}

// Pos is where a node sits.
type Pos int

const (
	PosRoot Pos = iota
	PosProp
	PosItem
	PosDef
	PosAddl
	PosBranch
)

// Node draws a schema node for position pos at nesting depth.
func (c *Ctx) Node(t *rapid.T, depth int, pos Pos, arrDepth int) *model.Node {
	p := c.P
	deep := depth >= p.MaxDepth
	cs := []kindChoice{
		{"string", p.WString}, {"integer", p.WInteger}, {"number", p.WNumber}, {"boolean", p.WBoolean},
		{"enum", p.WEnum},
	}
	if !deep {
		cs = append(cs, kindChoice{"object", p.WObject}, kindChoice{"map", p.WMap})
		if arrDepth < p.ArrayDepth {
			cs = append(cs, kindChoice{"array", p.WArray})
		}
		if pos == PosProp || (p.MixedBranches && pos == PosItem) {
			cs = append(cs, kindChoice{"allOf", p.WAllOf}, kindChoice{"anyOf", p.WAnyOf})
		}
	}
	if pos == PosProp || pos == PosItem {
		if len(c.Defs) > 0 {
			cs = append(cs, kindChoice{"ref", p.WRef})
		}
		cs = append(cs, kindChoice{"any", p.WAny})
	}
	if pos == PosProp || (pos == PosItem && p.NullItems) {
		cs = append(cs, kindChoice{"null", p.WNull})
	}
	var n *model.Node
	switch pick(t, "kind", cs) {
	case "string":
		n = c.String(t, pos)
	case "integer":
		n = c.Numeric(t, model.KInteger, pos)
	case "number":
		n = c.Numeric(t, model.KNumber, pos)
	case "boolean":
		n = &model.Node{Kind: model.KBoolean}
	case "enum":
		n = c.Enum(t)
	case "object":
		n = c.Object(t, depth+1)
	case "map":
		n = c.Map(t, depth+1)
	case "array":
		n = c.Array(t, depth+1, arrDepth+1)
	case "allOf":
		n = c.Composite(t, model.KAllOf, depth+1)
	case "anyOf":
		n = c.Composite(t, model.KAnyOf, depth+1)
	case "ref":
		d := rapid.SampledFrom(c.Defs).Draw(t, "refdef")
		n = &model.Node{Kind: model.KRef, Ref: "#/$defs/" + d.Name, Target: d.Node}
	case "any":
		n = &model.Node{Kind: model.KAny, AnyAsTrue: rapid.Bool().Draw(t, "anytrue")}
	case "null":
		n = &model.Node{Kind: model.KNull}
	}
	// nullable: only for typed, non-ref, non-composite nodes at property positions
	if pos == PosProp && n.Kind != model.KRef && n.Kind != model.KAny && n.Kind != model.KNull &&
		n.Kind != model.KAllOf && n.Kind != model.KAnyOf && n.Kind != model.KEnum && chance(t, p.PNullable, "nullable") {
		n.Nullable = true
		n.NullFirst = rapid.Bool().Draw(t, "nullfirst")
	}
	if n.Kind != model.KRef && chance(t, p.PDesc, "hasdesc") {
		n.Desc = c.text(t, "desc")
	}
	return n
}

func (c *Ctx) String(t *rapid.T, pos Pos) *model.Node {
	p := c.P
	n := &model.Node{Kind: model.KString}
	if pos != PosAddl && chance(t, p.PFormat, "hasformat") {
		n.Format = rapid.SampledFrom([]string{"date", "time", "date-time", "ipv4", "ipv6"}).Draw(t, "format")
		return n
	}
	if pos == PosAddl || (pos == PosItem && !p.InlineItemConstraints) {
		return n
	}
	if chance(t, p.PConstraint, "hasminlen") {
		n.MinLength = model.IntP(rapid.IntRange(1, 6).Draw(t, "minlen"))
	}
	if chance(t, p.PConstraint, "hasmaxlen") {
		lo := 1
		if n.MinLength != nil {
			lo = *n.MinLength
		}
		n.MaxLength = model.IntP(rapid.IntRange(lo, lo+6).Draw(t, "maxlen"))
		if n.MinLength == nil && rapid.IntRange(0, 7).Draw(t, "maxlenzero") == 0 && !p.avoid("strings.max_length_zero") {
			// known finding while the switch is on: a limit of 0 is taken for "no limit"
			n.MaxLength = model.IntP(0)
		}
	}
	if p.UnmappedFormats && rapid.IntRange(0, 4).Draw(t, "unmappedformat") == 0 {
		// a format the tool has no Go type for: the field stays a plain string and its length and
		// pattern limits stay in force
		n.Noise = append(n.Noise, jv.KV{K: "format", V: jv.StrV(rapid.SampledFrom([]string{"email", "uri", "uuid", "hostname", "x-custom", "duration", "regex", "json-pointer"}).Draw(t, "unmappedformatv"))})
	}
	if chance(t, p.PConstraint*0.7, "haspattern") {
		// only patterns that some string inside the length window can match
		var ok []Pat
		for _, pt := range Patterns {
			lo, hi := 0, -1
			if n.MinLength != nil {
				lo = *n.MinLength
			}
			if n.MaxLength != nil {
				hi = *n.MaxLength
			}
			if pt.Feasible(lo, hi) {
				ok = append(ok, pt)
			}
		}
		if len(ok) > 0 {
			n.Pattern = rapid.SampledFrom(ok).Draw(t, "pattern").Re
		}
	}
	return n
}

var grid = []float64{-3, -1, 0, 1, 2, 5, 10, 100}
var fgrid = []float64{-2.5, -1, -0.5, 0, 0.25, 1, 1.5, 2, 7.75, 10}
var sizedLimits = []float64{-9223372036854775808, -2147483649, -2147483648, -2147483647, -32769, -32768, -32767, -129, -128, -127, -1, 0, 1,
	126, 127, 128, 254, 255, 256, 32766, 32767, 32768, 65534, 65535, 65536, 2147483646, 2147483647, 2147483648, 4294967294, 4294967295, 4294967296}

func (c *Ctx) numConst(t *rapid.T, kind model.Kind, label string) float64 {
	p := c.P
	if p.MinSizedBounds && kind == model.KInteger && rapid.IntRange(0, 9).Draw(t, label+"s") < 6 {
		return rapid.SampledFrom(sizedLimits).Draw(t, label+"l")
	}
	if kind == model.KInteger && p.FractionalIntBounds && !p.AvoidQuiet("ints.fractional_bounds") && rapid.IntRange(0, 5).Draw(t, label+"fr") == 0 {
		return float64(rapid.IntRange(-20, 20).Draw(t, label+"fi")) + 0.5
	}
	if kind == model.KInteger || p.IntOnlyBounds {
		if g := rapid.IntRange(0, 9).Draw(t, label+"g"); (p.NumericGrid && g < 6) || (!p.NumericGrid && g < 3) {
			return rapid.SampledFrom(grid).Draw(t, label+"v")
		}
		return float64(rapid.IntRange(-1000, 1000).Draw(t, label+"i"))
	}
	if g := rapid.IntRange(0, 9).Draw(t, label+"g"); (p.NumericGrid && g < 6) || (!p.NumericGrid && g < 3) {
		return rapid.SampledFrom(fgrid).Draw(t, label+"v")
	}
	if rapid.IntRange(0, 3).Draw(t, label+"long") == 0 {
		// many significant digits, still an exact float64 (k/1024): shows precision loss in emitted literals
		return float64(rapid.Int64Range(-(1<<36), 1<<36).Draw(t, label+"ld")) / 1024
	}
	// dyadic rationals: exactly representable, exact arithmetic under multipleOf
	return float64(rapid.IntRange(-4000, 4000).Draw(t, label+"d")) / 8
}

func (c *Ctx) Numeric(t *rapid.T, kind model.Kind, pos Pos) *model.Node {
	p := c.P
	n := &model.Node{Kind: kind}
	if pos == PosAddl || (pos == PosItem && !p.InlineItemConstraints) {
		return n
	}
	if chance(t, p.PConstraint, "hasmin") {
		n.Minimum = model.FloatP(c.numConst(t, kind, "min"))
	}
	if chance(t, p.PConstraint, "hasmax") {
		v := c.numConst(t, kind, "max")
		n.Maximum = &v
	}
	if chance(t, p.PConstraint*0.6, "hasexmin") {
		if rapid.Bool().Draw(t, "exminbool") {
			n.ExclMin = &model.Excl{IsBool: true, B: rapid.IntRange(0, 3).Draw(t, "exminb") > 0}
		} else {
			n.ExclMin = &model.Excl{N: c.numConst(t, kind, "exmin")}
		}
	}
	if chance(t, p.PConstraint*0.6, "hasexmax") {
		if rapid.Bool().Draw(t, "exmaxbool") {
			n.ExclMax = &model.Excl{IsBool: true, B: rapid.IntRange(0, 3).Draw(t, "exmaxb") > 0}
		} else {
			n.ExclMax = &model.Excl{N: c.numConst(t, kind, "exmax")}
		}
	}
	if chance(t, p.PConstraint*0.6, "hasmult") {
		if kind == model.KInteger {
			n.MultipleOf = model.FloatP(float64(rapid.SampledFrom([]int{1, 2, 3, 5, 7, 10, 64}).Draw(t, "mult")))
			if p.FractionalIntBounds && rapid.IntRange(0, 5).Draw(t, "fracmult") == 0 && !p.avoid("ints.fractional_multipleof") {
				// known finding while the switch is on: the divisor is truncated to an integer
				n.MultipleOf = model.FloatP(rapid.SampledFrom([]float64{0.5, 1.5, 2.5, 0.25}).Draw(t, "fracmultv"))
			}
		} else if pos == PosDef && p.avoid("numbers.named_float_multipleof") {
			// excluded by a known finding
		} else {
			n.MultipleOf = model.FloatP(rapid.SampledFrom([]float64{0.25, 0.5, 1, 1.5, 2, 2.5, 8, 16777217, 0.0009765625, 1025.0 / 1024}).Draw(t, "mult"))
		}
	}
	if p.MinSizedBounds {
		big64 := func(f float64) bool { return f >= 9223372036854775808.0 || f <= -9223372036854775808.0 }
		if n.ExclMin != nil && ((!n.ExclMin.IsBool && big64(n.ExclMin.N)) || (n.ExclMin.IsBool && n.ExclMin.B && n.Minimum != nil && big64(*n.Minimum))) && p.avoid("ints.exclusive_bound_at_64bit_limit") {
			n.ExclMin = nil
		}
		if n.ExclMax != nil && ((!n.ExclMax.IsBool && big64(n.ExclMax.N)) || (n.ExclMax.IsBool && n.ExclMax.B && n.Maximum != nil && big64(*n.Maximum))) && p.avoid("ints.exclusive_bound_at_64bit_limit") {
			n.ExclMax = nil
		}
		if pos == PosItem && kind == model.KInteger && (n.Maximum != nil || n.ExclMax != nil) && p.avoid("minsized.uint8_array_items") {
			n.Maximum, n.ExclMax = nil, nil
		}
	}
	if p.Sat != nil && !p.KeepUnsat {
		// repair empty intervals by dropping keywords in a fixed order
		for _, drop := range []func(){
			func() { n.ExclMax = nil }, func() { n.ExclMin = nil }, func() { n.Maximum = nil }, func() { n.MultipleOf = nil }, func() { n.Minimum = nil },
		} {
			if p.Sat(n) {
				break
			}
			drop()
		}
	}
	return n
}

var enumStrings = []string{"2024-06-30", "7e3", "12e4", "1e2", "0x1F", "", "a", "A", "b", "foo", "Foo", "foo bar", "foo_bar", "foo-bar", "1", "true", "null", "é", "日本", "x y", " a", "a ", "42x", "%d", `q"q`, `b\s`}

func (c *Ctx) Enum(t *rapid.T) *model.Node {
	p := c.P
	n := &model.Node{Kind: model.KEnum}
	kinds := []string{"string", "string", "integer", "number", "boolean"}
	if p.MixedEnums {
		kinds = append(kinds, "mixed", "mixed", "untyped-string", "untyped-number", "nullmix")
	}
	k := rapid.SampledFrom(kinds).Draw(t, "enumkind")
	cnt := rapid.IntRange(1, 6).Draw(t, "enumcnt")
	identKey := func(v jv.V) string {
		if v.K != jv.Str {
			return ""
		}
		var sb strings.Builder
		for _, r := range strings.ToLower(v.S) {
			if (r >= 'a' && r <= 'z') || (r >= '0' && r <= '9') || r > 0x7f {
				sb.WriteRune(r)
			}
		}
		return "s:" + sb.String()
	}
	add := func(v jv.V) {
		for _, e := range n.EnumVals {
			if jv.Equal(e, v) {
				return
			}
			if k := identKey(v); k != "" && k == identKey(e) && p.avoid("enums.colliding_constant_names") {
				return
			}
		}
		n.EnumVals = append(n.EnumVals, v)
	}
	drawStr := func() jv.V { return jv.StrV(rapid.SampledFrom(enumStrings).Draw(t, "es")) }
	drawInt := func() jv.V {
		return jv.IntV(int64(rapid.SampledFrom([]int{-2147483649, -100, -1, 0, 1, 2, 3, 7, 42, 1000, 2147483648}).Draw(t, "ei")))
	}
	drawNum := func() jv.V {
		return jv.FloatV(rapid.SampledFrom([]float64{-1.5, -1, 0, 0.5, 1, 1.25, 2, 3.75, 100}).Draw(t, "en"))
	}
	for i := 0; i < cnt; i++ {
		switch k {
		case "string":
			n.EnumType = "string"
			add(drawStr())
		case "untyped-string":
			add(drawStr())
		case "integer":
			n.EnumType = "integer"
			add(drawInt())
		case "number":
			n.EnumType = "number"
			add(drawNum())
		case "untyped-number":
			add(drawNum())
		case "boolean":
			n.EnumType = "boolean"
			add(jv.BoolV(rapid.Bool().Draw(t, "eb")))
		case "mixed", "nullmix":
			switch rapid.IntRange(0, 4).Draw(t, "emk") {
			case 0:
				add(drawStr())
			case 1:
				add(drawNum())
			case 2:
				add(jv.BoolV(rapid.Bool().Draw(t, "eb")))
			case 3:
				if k == "nullmix" {
					add(jv.NullV())
				} else {
					add(drawInt())
				}
			case 4:
				add(drawStr())
			}
		}
	}
	return n
}

func (c *Ctx) Array(t *rapid.T, depth, arrDepth int) *model.Node {
	p := c.P
	n := &model.Node{Kind: model.KArray}
	n.Items = c.Node(t, depth, PosItem, arrDepth)
	if chance(t, p.PConstraint, "hasminitems") {
		n.MinItems = model.IntP(rapid.IntRange(1, 3).Draw(t, "minitems"))
	}
	if chance(t, p.PConstraint, "hasmaxitems") {
		lo := 1
		if n.MinItems != nil {
			lo = *n.MinItems
		}
		n.MaxItems = model.IntP(rapid.IntRange(lo, lo+3).Draw(t, "maxitems"))
		if n.MinItems == nil && rapid.IntRange(0, 7).Draw(t, "maxitemszero") == 0 && !p.avoid("arrays.max_items_zero") {
			n.MaxItems = model.IntP(0)
		}
	}
	if n.Items.Kind == model.KArray && !n.Items.Nullable && p.avoid("arrays.nested_levels_differ") {
		// known finding: nested levels are checked against the outer bounds
		for it := n.Items; it != nil && it.Kind == model.KArray; it = it.Items {
			it.MinItems, it.MaxItems = n.MinItems, n.MaxItems
		}
	}
	return n
}

// Map draws an object without properties (Go map type).
func (c *Ctx) Map(t *rapid.T, depth int) *model.Node {
	n := &model.Node{Kind: model.KObject}
	if rapid.Bool().Draw(t, "maptyped") {
		n.Additional = &model.Additional{Schema: c.addlValue(t)}
		// the nullable idiom on map values ([T,"null"] in either order): map[string]*T
		if v := n.Additional.Schema; (v.Kind == model.KString || v.Kind == model.KInteger || v.Kind == model.KNumber || v.Kind == model.KBoolean) &&
			rapid.IntRange(0, 2).Draw(t, "mapvaluenull") == 0 {
			v.Nullable = true
			v.NullFirst = rapid.Bool().Draw(t, "mapvaluenullfirst")
		}
	}
	return n
}

func (c *Ctx) addlValue(t *rapid.T) *model.Node {
	switch rapid.IntRange(0, 4).Draw(t, "addlkind") {
	case 0:
		return &model.Node{Kind: model.KString}
	case 1:
		return &model.Node{Kind: model.KInteger}
	case 2:
		return &model.Node{Kind: model.KNumber}
	case 3:
		return &model.Node{Kind: model.KBoolean}
	}
	return &model.Node{Kind: model.KArray, Items: &model.Node{Kind: model.KAny}}
}

func (c *Ctx) Object(t *rapid.T, depth int) *model.Node {
	p := c.P
	n := &model.Node{Kind: model.KObject}
	cnt := rapid.IntRange(p.MinProps, p.MaxProps).Draw(t, "nprops")
	if depth > 1 && cnt > 4 {
		cnt = 1 + cnt/3
	}
	if cnt == 0 {
		cnt = 1
	}
	sib := map[string]bool{}
	for i := 0; i < cnt; i++ {
		name := c.Name(t, sib)
		child := c.Node(t, depth, PosProp, 0)
		n.Props = append(n.Props, model.Prop{Name: name, Node: child})
		if chance(t, p.PRequired, "required") {
			n.Required = append(n.Required, name)
		}
	}
	if chance(t, p.PAdditional, "hasaddl") {
		switch k := rapid.IntRange(0, 6).Draw(t, "addlfalse"); {
		case k == 0:
			n.Additional = &model.Additional{False: true}
		case k <= 2 && p.UntypedAdditional:
			// the everyday form: additionalProperties true / {}
			n.Additional = &model.Additional{Schema: &model.Node{Kind: model.KAny, AnyAsTrue: rapid.Bool().Draw(t, "addltrue")}}
		default:
			n.Additional = &model.Additional{Schema: c.addlValue(t)}
		}
	}
	return n
}

// Composite draws allOf/anyOf over object branches with disjoint property
// names (overlap variants are built by the C11 generator).
func (c *Ctx) Composite(t *rapid.T, kind model.Kind, depth int) *model.Node {
	n := &model.Node{Kind: kind}
	cnt := rapid.IntRange(1, 4).Draw(t, "nbranches")
	sib := map[string]bool{}
	save := *c.P
	defer func() { *c.P = save }()
	c.P.WAllOf, c.P.WAnyOf = 0, 0
	for i := 0; i < cnt; i++ {
		b := &model.Node{Kind: model.KObject}
		pc := rapid.IntRange(1, 3).Draw(t, "bprops")
		for j := 0; j < pc; j++ {
			name := c.Name(t, sib)
			child := c.leaf(t)
			b.Props = append(b.Props, model.Prop{Name: name, Node: child})
			if chance(t, 0.6, "brequired") {
				b.Required = append(b.Required, name)
			}
		}
		if c.P.MixedBranches && rapid.IntRange(0, 99).Draw(t, "mixedbranch") < 45 {
			b = c.mixedBranch(t, kind, depth, b)
		}
		n.Branches = append(n.Branches, b)
	}
	if c.P.MixedBranches {
		// branches state disjoint property sets (overlap with conflicting types is
		// C11's subject and a known finding there): names taken by referenced
		// definitions are fixed, inline duplicates are renamed
		seen := map[string]bool{}
		for _, b := range n.Branches {
			if b.Kind == model.KRef {
				if r := b.Resolve(); r != nil {
					for _, p := range r.Props {
						seen[strings.ToLower(p.Name)] = true
					}
				}
			}
		}
		for _, b := range n.Branches {
			if b.Kind != model.KObject {
				continue
			}
			for i := range b.Props {
				old := b.Props[i].Name
				name := old
				for k := 2; seen[strings.ToLower(strings.ReplaceAll(name, "_", ""))]; k++ {
					name = fmt.Sprintf("%sv%d", old, k)
				}
				seen[strings.ToLower(strings.ReplaceAll(name, "_", ""))] = true
				if name != old {
					b.Props[i].Name = name
					for j, r := range b.Required {
						if r == old {
							b.Required[j] = name
						}
					}
				}
			}
		}
	}
	if c.P.MixedBranches && kind == model.KAnyOf {
		objs, others := 0, 0
		for _, b := range n.Branches {
			if objectLike(b) {
				objs++
			} else {
				others++
			}
		}
		if objs > 0 && others > 0 && c.P.avoid("anyof.object_and_non_object_branches") {
			// known finding: the non-object branches get no type of their own
			kept := n.Branches[:0]
			for _, b := range n.Branches {
				if objectLike(b) {
					kept = append(kept, b)
				}
			}
			n.Branches = kept
		}
		if objs == 0 && c.P.avoid("anyof.non_object_branches_with_format_array") {
			// known finding: the import of the items' format type is left unused
			for _, b := range n.Branches {
				model.Walk(b, func(x *model.Node) { x.Format = "" })
			}
		}
	}
	if kind == model.KAllOf && rapid.IntRange(0, 9).Draw(t, "reqonly") < 3 {
		// the idiom allOf: [{...properties...}, {"required": [...]}]: a branch that only lists required
		var optional []string
		for _, b := range n.Branches {
			for _, p := range b.Props {
				if !b.IsRequired(p.Name) {
					optional = append(optional, p.Name)
				}
			}
		}
		if len(optional) > 0 {
			k := rapid.IntRange(1, min(2, len(optional))).Draw(t, "reqonlyn")
			pick := rapid.Permutation(optional).Draw(t, "reqonlypick")[:k]
			n.Branches = append(n.Branches, &model.Node{Kind: model.KObject, NoType: true, Required: pick})
		}
	}
	return n
}

func objectLike(n *model.Node) bool {
	r := n.Resolve()
	return r != nil && (r.Kind == model.KObject || r.Kind == model.KAllOf || r.Kind == model.KAnyOf)
}

// mixedBranch draws a branch that is not a plain inline object. Under allOf
// only object-like alternatives are drawn (an allOf over different JSON types
// admits nothing and is not a schema anyone writes).
func (c *Ctx) mixedBranch(t *rapid.T, parent model.Kind, depth int, fallback *model.Node) *model.Node {
	if parent == model.KAllOf {
		var objDefs []model.Def
		for _, d := range c.Defs {
			if d.Node.Kind == model.KObject {
				hasAnyOf := false
				model.Walk(d.Node, func(x *model.Node) { hasAnyOf = hasAnyOf || x.Kind == model.KAnyOf })
				if hasAnyOf && c.P.avoid("allof.ref_branch_with_anyof_property") {
					continue
				}
				objDefs = append(objDefs, d)
			}
		}
		if len(objDefs) > 0 && rapid.IntRange(0, 2).Draw(t, "mixedallof") > 0 {
			d := rapid.SampledFrom(objDefs).Draw(t, "mixedref")
			return &model.Node{Kind: model.KRef, Ref: "#/$defs/" + d.Name, Target: d.Node}
		}
		if rapid.Bool().Draw(t, "mixedallofobj") {
			return c.Object(t, depth+1)
		}
		return fallback
	}
	kinds := []string{"null", "null", "string", "integer", "number", "boolean", "enum", "array", "object", "any"}
	if len(c.Defs) > 0 {
		kinds = append(kinds, "ref", "ref", "ref")
	}
	switch rapid.SampledFrom(kinds).Draw(t, "mixedkind") {
	case "null":
		return &model.Node{Kind: model.KNull}
	case "string":
		return c.String(t, PosProp)
	case "integer":
		return c.Numeric(t, model.KInteger, PosProp)
	case "number":
		return c.Numeric(t, model.KNumber, PosProp)
	case "boolean":
		return &model.Node{Kind: model.KBoolean}
	case "enum":
		return c.Enum(t)
	case "array":
		return c.Array(t, depth+1, 1)
	case "object":
		return c.Object(t, depth+1)
	case "ref":
		var cands []model.Def
		for _, d := range c.Defs {
			hasAnyOf := false
			model.Walk(d.Node, func(x *model.Node) { hasAnyOf = hasAnyOf || x.Kind == model.KAnyOf })
			if hasAnyOf && c.P.avoid("allof.ref_branch_with_anyof_property") {
				continue
			}
			if !(d.Node.Kind == model.KObject && len(d.Node.Required) > 0) && c.P.avoid("anyof.ref_branch_without_validators") {
				// known finding: a referenced branch whose type has no unmarshaler
				continue
			}
			cands = append(cands, d)
		}
		if len(cands) == 0 {
			return fallback
		}
		d := rapid.SampledFrom(cands).Draw(t, "mixedref")
		return &model.Node{Kind: model.KRef, Ref: "#/$defs/" + d.Name, Target: d.Node}
	}
	return &model.Node{Kind: model.KAny}
}

func (c *Ctx) leaf(t *rapid.T) *model.Node {
	switch rapid.IntRange(0, 3).Draw(t, "leafkind") {
	case 0:
		return c.String(t, PosProp)
	case 1:
		return c.Numeric(t, model.KInteger, PosProp)
	case 2:
		return c.Numeric(t, model.KNumber, PosProp)
	}
	return &model.Node{Kind: model.KBoolean}
}

// DefNode draws a definition body.
func (c *Ctx) DefNode(t *rapid.T) *model.Node {
	p := c.P
	cs := []kindChoice{{"object", 4}, {"string", 2}, {"integer", 2}, {"number", 2}, {"enum", p.WEnum}}
	if !p.DefsOnlyPrimitivesAndObjects {
		cs = append(cs, kindChoice{"array", 1}, kindChoice{"boolean", 1})
	}
	if p.DefWeights != nil {
		cs = nil
		for _, k := range []string{"object", "string", "integer", "number", "enum", "array", "boolean"} {
			cs = append(cs, kindChoice{k, p.DefWeights[k]})
		}
	}
	if p.MixedBranches {
		cs = append(cs, kindChoice{"allOf", 1}, kindChoice{"anyOf", 2})
	}
	if n := c.defNode(t, cs); n != nil {
		if (n.Kind == model.KString || n.Kind == model.KInteger || n.Kind == model.KNumber) && n.Format == "" &&
			chance(t, p.PNullable, "nullabledef") && !p.avoid("defs.nullable_primitive_definition") {
			// known finding while the switch is on: type X *T carries no validation at all
			n.Nullable = true
			n.NullFirst = rapid.Bool().Draw(t, "nullabledeffirst")
		}
		return n
	}
	return &model.Node{Kind: model.KBoolean}
}

func (c *Ctx) defNode(t *rapid.T, cs []kindChoice) *model.Node {
	p := c.P
	switch pick(t, "defkind", cs) {
	case "allOf":
		return c.Composite(t, model.KAllOf, 2)
	case "anyOf":
		return c.Composite(t, model.KAnyOf, 2)
	case "object":
		return c.Object(t, 2)
	case "string":
		return c.String(t, PosDef)
	case "integer":
		return c.Numeric(t, model.KInteger, PosDef)
	case "number":
		return c.Numeric(t, model.KNumber, PosDef)
	case "enum":
		return c.Enum(t)
	case "array":
		if p.avoid("refs.array_definition") {
			// known finding: a named array definition validates nothing
			return c.Object(t, 2)
		}
		return c.Array(t, 2, 1)
	}
	return &model.Node{Kind: model.KBoolean}
}

// File draws one self-contained schema file whose root is an object.
func (p *Profile) File(t *rapid.T, relPath string) *model.File {
	c := &Ctx{P: p}
	f := &model.File{RelPath: relPath, ID: "https://example.com/" + strings.TrimSuffix(relPath, ".json")}
	nd := 0
	if p.MaxDefs > 0 {
		nd = rapid.IntRange(p.MinDefs, p.MaxDefs).Draw(t, "ndefs")
	}
	sib := map[string]bool{}
	for i := 0; i < nd; i++ {
		name := strings.ToUpper(c.Name(t, sib)[:1]) + fmt.Sprintf("d%d", i)
		node := c.DefNode(t)
		c.Defs = append(c.Defs, model.Def{Name: name, Node: node})
	}
	f.Defs = c.Defs
	f.Root = c.Object(t, 0)
	return f
}
