// Package cmpdump compares the reflective dump of a decoded Go value (verifrt)
// with the expected tree (docs.Exp). Properties are matched to the struct field
// whose json tag name equals the property name byte for byte.
package cmpdump

import (
	"encoding/base64"
	"fmt"
	"math"
	"math/big"
	"reflect"
	"sort"
	"strconv"
	"strings"
	"time"

	"verif/harness/docs"
	"verif/harness/jv"
)

func unwrap(d jv.V) jv.V {
	for i := 0; i < 100; i++ {
		if p, ok := d.Get("$ptr"); ok {
			d = p
			continue
		}
		if p, ok := d.Get("$if"); ok {
			d = p
			continue
		}
		break
	}
	return d
}

func isNil(d jv.V) bool { return d.Has("$nil") }

func str(d jv.V, k string) (string, bool) {
	v, ok := d.Get(k)
	if !ok || v.K != jv.Str {
		return "", false
	}
	return v.S, true
}

// IsZero reports whether a dump is a nil or zero Go value.
func IsZero(d jv.V) bool {
	if isNil(d) {
		return true
	}
	if p, ok := d.Get("$ptr"); ok {
		_ = p
		return false
	}
	if p, ok := d.Get("$if"); ok {
		_ = p
		return false
	}
	if s, ok := str(d, "$i"); ok {
		return s == "0"
	}
	if s, ok := str(d, "$f"); ok {
		return s == "0"
	}
	if s, ok := str(d, "$s"); ok {
		return s == ""
	}
	if b, ok := d.Get("$b"); ok {
		return !b.B
	}
	if z, ok := d.Get("zero"); ok {
		return z.B
	}
	if v, ok := d.Get("valid"); ok { // netip.Addr
		return !v.B
	}
	if a, ok := d.Get("$a"); ok {
		return false && len(a.A) == 0
	}
	if _, ok := d.Get("$m"); ok {
		return false
	}
	if f, ok := d.Get("f"); ok && d.Has("$t") {
		for _, fe := range f.A {
			fv, _ := fe.Get("v")
			if !IsZero(fv) {
				return false
			}
		}
		return true
	}
	return false
}

// Generic converts a dump into the plain JSON value it represents (struct
// wrappers of enums collapse to their Value field, structs to objects keyed by
// json tag).
func Generic(d jv.V) (jv.V, error) {
	d = unwrap(d)
	if isNil(d) {
		return jv.NullV(), nil
	}
	if s, ok := str(d, "$i"); ok {
		return jv.NumLit(s), nil
	}
	if s, ok := str(d, "$f"); ok {
		f, err := strconv.ParseFloat(s, 64)
		if err != nil || math.IsInf(f, 0) || math.IsNaN(f) {
			return jv.V{}, fmt.Errorf("non-finite float %q", s)
		}
		return jv.FloatV(f), nil
	}
	if s, ok := str(d, "$s"); ok {
		b, err := base64.StdEncoding.DecodeString(s)
		if err != nil {
			return jv.V{}, err
		}
		return jv.StrV(string(b)), nil
	}
	if b, ok := d.Get("$b"); ok {
		return jv.BoolV(b.B), nil
	}
	if a, ok := d.Get("$a"); ok {
		out := jv.V{K: jv.Arr, A: []jv.V{}}
		for _, e := range a.A {
			g, err := Generic(e)
			if err != nil {
				return jv.V{}, err
			}
			out.A = append(out.A, g)
		}
		return out, nil
	}
	if m, ok := d.Get("$m"); ok {
		out := jv.V{K: jv.Obj, O: []jv.KV{}}
		for _, e := range m.A {
			g, err := Generic(e.A[1])
			if err != nil {
				return jv.V{}, err
			}
			out.O = append(out.O, jv.KV{K: e.A[0].S, V: g})
		}
		return out, nil
	}
	if f, ok := d.Get("f"); ok && d.Has("$t") {
		if len(f.A) == 1 {
			if g, _ := str(f.A[0], "go"); g == "Value" {
				fv, _ := f.A[0].Get("v")
				return Generic(fv)
			}
		}
		out := jv.V{K: jv.Obj, O: []jv.KV{}}
		for _, fe := range f.A {
			tag, _ := str(fe, "tag")
			name := tagName(tag, "json")
			if name == "" {
				name, _ = str(fe, "go")
			}
			fv, _ := fe.Get("v")
			g, err := Generic(fv)
			if err != nil {
				return jv.V{}, err
			}
			out.O = append(out.O, jv.KV{K: name, V: g})
		}
		return out, nil
	}
	for _, k := range []string{"$SerializableDate", "$SerializableTime", "$ip", "$time"} {
		if s, ok := str(d, k); ok {
			return jv.StrV(s), nil
		}
	}
	return jv.V{}, fmt.Errorf("cannot interpret dump %s", clip(d.String()))
}

func tagName(tag, key string) string {
	v, ok := reflect.StructTag(tag).Lookup(key)
	if !ok {
		return ""
	}
	if i := strings.IndexByte(v, ','); i >= 0 {
		v = v[:i]
	}
	return v
}

// TagNameOK returns the name part of a struct tag key and whether the key
// exists.
func TagNameOK(tag, key string) (string, bool) {
	v, ok := reflect.StructTag(tag).Lookup(key)
	if !ok {
		return "", false
	}
	if i := strings.IndexByte(v, ','); i >= 0 {
		v = v[:i]
	}
	return v, true
}

func clip(s string) string {
	if len(s) > 160 {
		return s[:160] + "…"
	}
	return s
}

// Compare returns the mismatches between the expected tree and the dump.
func Compare(e *docs.Exp, d jv.V) []string {
	var out []string
	compare(e, d, "", &out)
	return out
}

func compare(e *docs.Exp, d jv.V, path string, out *[]string) {
	if e == nil || len(*out) > 10 {
		return
	}
	bad := func(f string, a ...any) {
		*out = append(*out, path+": "+fmt.Sprintf(f, a...))
	}
	switch e.K {
	case "skip":
		return
	case "absent", "null":
		if !IsZero(d) {
			bad("expected nil/zero for %s property, got %s", e.K, clip(d.String()))
		}
		return
	}
	u := unwrap(d)
	if isNil(u) {
		if (e.K == "arr" && len(e.Elems) == 0) || (e.K == "map" && len(e.Props) == 0) {
			return
		}
		if (e.K == "enum" || e.K == "any") && string(e.Raw) == "null" {
			return
		}
		bad("expected a %s value, decoded value is nil", e.K)
		return
	}
	switch e.K {
	case "str":
		s, ok := str(u, "$s")
		if !ok {
			bad("expected string, got %s", clip(u.String()))
			return
		}
		b, _ := base64.StdEncoding.DecodeString(s)
		if string(b) != e.S {
			bad("string differs: want %q got %q", e.S, string(b))
		}
	case "int":
		s, ok := str(u, "$i")
		if !ok {
			bad("expected integer kind, got %s", clip(u.String()))
			return
		}
		want, ok1 := new(big.Int).SetString(e.S, 10)
		got, ok2 := new(big.Int).SetString(s, 10)
		if !ok1 || !ok2 || want.Cmp(got) != 0 {
			bad("integer differs: want %s got %s", e.S, s)
		}
	case "num":
		s, ok := str(u, "$f")
		if !ok {
			bad("expected float kind, got %s", clip(u.String()))
			return
		}
		want, _ := strconv.ParseFloat(e.S, 64)
		got, _ := strconv.ParseFloat(s, 64)
		if math.Float64bits(want) != math.Float64bits(got) {
			bad("number differs: want %s got %s", e.S, s)
		}
	case "bool":
		b, ok := u.Get("$b")
		if !ok || b.B != e.B {
			bad("bool differs: want %v got %s", e.B, clip(u.String()))
		}
	case "fmt":
		compareFormat(e, u, bad)
	case "any", "enum":
		g, err := Generic(u)
		if err != nil {
			bad("%v", err)
			return
		}
		want, err := jv.Parse(e.Raw)
		if err != nil {
			bad("bad expectation: %v", err)
			return
		}
		if !jv.Equal(want, g) {
			bad("%s value differs: want %s got %s", e.K, clip(want.String()), clip(g.String()))
		}
	case "arr":
		a, ok := u.Get("$a")
		if !ok {
			bad("expected array, got %s", clip(u.String()))
			return
		}
		if len(a.A) != len(e.Elems) {
			bad("array length differs: want %d got %d", len(e.Elems), len(a.A))
			return
		}
		for i := range e.Elems {
			compare(e.Elems[i], a.A[i], fmt.Sprintf("%s/%d", path, i), out)
		}
	case "map":
		m, ok := u.Get("$m")
		if !ok {
			bad("expected map, got %s", clip(u.String()))
			return
		}
		got := map[string]jv.V{}
		for _, en := range m.A {
			got[en.A[0].S] = en.A[1]
		}
		keys := make([]string, 0, len(e.Props))
		for k := range e.Props {
			keys = append(keys, k)
		}
		sort.Strings(keys)
		for _, k := range keys {
			gv, ok := got[k]
			if !ok {
				bad("map key %q missing", k)
				continue
			}
			compare(e.Props[k], gv, path+"/"+k, out)
		}
		for k := range got {
			if _, ok := e.Props[k]; !ok {
				bad("unexpected map key %q", k)
			}
		}
	case "obj":
		f, ok := u.Get("f")
		if !ok || !u.Has("$t") {
			bad("expected struct, got %s", clip(u.String()))
			return
		}
		byTag := map[string]jv.V{}
		var addl *jv.V
		for _, fe := range f.A {
			tag, _ := str(fe, "tag")
			fv, _ := fe.Get("v")
			if name, ok := TagNameOK(tag, "json"); ok && name != "" && name != "-" {
				if _, dup := byTag[name]; dup {
					bad("two fields carry json tag %q", name)
				}
				byTag[name] = fv
			}
			if g, _ := str(fe, "go"); g == "AdditionalProperties" {
				v := fv
				addl = &v
			}
		}
		keys := make([]string, 0, len(e.Props))
		for k := range e.Props {
			keys = append(keys, k)
		}
		sort.Strings(keys)
		for _, k := range keys {
			fv, ok := byTag[k]
			if !ok {
				bad("no field bound to key %q (json tag)", k)
				continue
			}
			compare(e.Props[k], fv, path+"/"+k, out)
		}
		if e.Exact {
			extra := make([]string, 0)
			for name := range byTag {
				if _, ok := e.Props[name]; !ok {
					extra = append(extra, name)
				}
			}
			sort.Strings(extra)
			if len(extra) > 0 {
				bad("the type exposes properties that none of its branches declares: %v", extra)
			}
		}
		if e.HasAddl {
			if addl == nil {
				bad("no AdditionalProperties field")
				return
			}
			g, err := Generic(*addl)
			if err != nil {
				bad("additional: %v", err)
				return
			}
			if g.K == jv.Null {
				g = jv.ObjV()
			}
			if g.K != jv.Obj {
				bad("additional properties field is not a map: %s", clip(g.String()))
				return
			}
			want := jv.V{K: jv.Obj, O: []jv.KV{}}
			ak := make([]string, 0, len(e.Addl))
			for k := range e.Addl {
				ak = append(ak, k)
			}
			sort.Strings(ak)
			for _, k := range ak {
				v, _ := jv.Parse(e.Addl[k])
				want.O = append(want.O, jv.KV{K: k, V: v})
			}
			if !jv.Equal(want, g) {
				bad("additional properties differ: want %s got %s", clip(want.String()), clip(g.String()))
			}
		}
	default:
		bad("unknown expectation kind %q", e.K)
	}
}

func compareFormat(e *docs.Exp, u jv.V, bad func(string, ...any)) {
	switch e.Fmt {
	case "date":
		s, ok := str(u, "$SerializableDate")
		if !ok || s != e.S {
			bad("date differs: want %q got %s", e.S, clip(u.String()))
		}
	case "time":
		s, ok := str(u, "$SerializableTime")
		if !ok || s != e.S {
			bad("time differs: want %q got %s", e.S, clip(u.String()))
		}
	case "date-time":
		s, ok := str(u, "$time")
		if !ok {
			bad("expected time.Time, got %s", clip(u.String()))
			return
		}
		want, err1 := time.Parse(time.RFC3339Nano, e.S)
		got, err2 := time.Parse(time.RFC3339Nano, s)
		if err1 != nil || err2 != nil {
			bad("unparsable date-time: want %q got %q", e.S, s)
			return
		}
		_, wo := want.Zone()
		_, gofs := got.Zone()
		if !want.Equal(got) || wo != gofs {
			bad("date-time differs: want %q got %q", e.S, s)
		}
	case "ipv4", "ipv6":
		s, ok := str(u, "$ip")
		if !ok || s != e.S {
			bad("ip differs: want %q got %s", e.S, clip(u.String()))
		}
	default:
		bad("unknown format %q", e.Fmt)
	}
}
