// Package goast analyses emitted Go source: parse, gofmt fixpoint, go/types
// against gc export data (std, yaml.v3, mapstructure, pkg/types) plus sibling
// generated packages from the same run.
package goast

import (
	"bytes"
	"fmt"
	"go/ast"
	"go/format"
	"go/importer"
	"go/parser"
	"go/token"
	"go/types"
	"io"
	"os"
	"os/exec"
	"strings"
	"sync"
)

// Packages whose export data is loaded for type-checking emitted code.
var exportRoots = []string{
	"encoding/json", "fmt", "reflect", "strings", "regexp", "math", "errors", "time",
	"net/netip", "math/big", "net/url", "net", "os", "sort", "strconv", "bytes", "unicode/utf8",
	"gopkg.in/yaml.v3", "github.com/go-viper/mapstructure/v2",
	"github.com/atombender/go-jsonschema/pkg/types",
}

var (
	exportOnce sync.Once
	exportMap  map[string]string
	exportErr  error
)

func loadExports() {
	args := append([]string{"list", "-export", "-deps", "-f", "{{if .Export}}{{.ImportPath}}={{.Export}}{{end}}"}, exportRoots...)
	cmd := exec.Command("go", args...)
	cmd.Dir = HarnessDir()
	var stderr bytes.Buffer
	cmd.Stderr = &stderr
	out, err := cmd.Output()
	if err != nil {
		exportErr = fmt.Errorf("go list -export: %v: %s", err, stderr.String())
		return
	}
	exportMap = map[string]string{}
	for _, line := range strings.Split(string(out), "\n") {
		if i := strings.IndexByte(line, '='); i > 0 {
			exportMap[line[:i]] = line[i+1:]
		}
	}
}

// HarnessDir is the harness module root (for go list / go build).
func HarnessDir() string {
	if d := os.Getenv("VERIF_HARNESS"); d != "" {
		return d
	}
	if d := os.Getenv("VERIF_DIR"); d != "" {
		return d + "/harness"
	}
	return "/verif/harness"
}

// Ready loads export data once; an error is an infrastructure failure.
func Ready() error {
	exportOnce.Do(loadExports)
	return exportErr
}

type chainImporter struct {
	fset    *token.FileSet
	gc      types.Importer
	sibling map[string]*types.Package
}

func (c *chainImporter) Import(path string) (*types.Package, error) {
	if p, ok := c.sibling[path]; ok {
		return p, nil
	}
	return c.gc.Import(path)
}

func newImporter(fset *token.FileSet, sibling map[string]*types.Package) *chainImporter {
	lookup := func(path string) (io.ReadCloser, error) {
		f, ok := exportMap[path]
		if !ok {
			return nil, fmt.Errorf("no export data for %q", path)
		}
		return os.Open(f)
	}
	return &chainImporter{fset: fset, gc: importer.ForCompiler(fset, "gc", lookup), sibling: sibling}
}

// Problem is one defect of an emitted file.
type Problem struct {
	File string
	Kind string // parse, gofmt, type
	Msg  string
}

func (p Problem) String() string { return fmt.Sprintf("%s: %s: %s", p.File, p.Kind, p.Msg) }

// Pkg is a set of emitted files forming one Go package.
type Pkg struct {
	ImportPath string
	Files      map[string]string // name -> source
}

type Checked struct {
	Fset  *token.FileSet
	Files map[string]*ast.File
	Pkgs  map[string]*types.Package
	Info  map[string]*types.Info
}

// CheckPackages parses, gofmt-checks and type-checks packages in dependency
// order (importers after importees; cycles are reported by go/types as a
// missing import).
func CheckPackages(pkgs []Pkg) ([]Problem, *Checked) {
	if err := Ready(); err != nil {
		return []Problem{{Kind: "infra", Msg: err.Error()}}, nil
	}
	fset := token.NewFileSet()
	var problems []Problem
	ck := &Checked{Fset: fset, Files: map[string]*ast.File{}, Pkgs: map[string]*types.Package{}, Info: map[string]*types.Info{}}

	parsed := map[string][]*ast.File{}
	imports := map[string][]string{}
	for _, p := range pkgs {
		names := sortedKeys(p.Files)
		for _, name := range names {
			src := p.Files[name]
			f, err := parser.ParseFile(fset, name, src, parser.ParseComments|parser.SkipObjectResolution)
			if err != nil {
				problems = append(problems, Problem{name, "parse", err.Error()})
				continue
			}
			formatted, ferr := format.Source([]byte(src))
			if ferr != nil {
				problems = append(problems, Problem{name, "gofmt", ferr.Error()})
			} else if !bytes.Equal(formatted, []byte(src)) {
				problems = append(problems, Problem{name, "gofmt", "not gofmt-stable: " + firstDiff(src, string(formatted))})
			}
			ck.Files[name] = f
			parsed[p.ImportPath] = append(parsed[p.ImportPath], f)
			for _, im := range f.Imports {
				imports[p.ImportPath] = append(imports[p.ImportPath], strings.Trim(im.Path.Value, `"`))
			}
		}
	}
	// dependency order among sibling packages
	done := map[string]bool{}
	var order []string
	var visit func(string, int)
	visit = func(ip string, d int) {
		if done[ip] || d > 50 {
			return
		}
		done[ip] = true
		for _, dep := range imports[ip] {
			if _, ok := parsed[dep]; ok {
				visit(dep, d+1)
			}
		}
		order = append(order, ip)
	}
	for _, p := range pkgs {
		visit(p.ImportPath, 0)
	}
	imp := newImporter(fset, ck.Pkgs)
	for _, ip := range order {
		files := parsed[ip]
		if len(files) == 0 {
			continue
		}
		var errs []string
		conf := types.Config{
			Importer: imp,
			Error: func(err error) {
				if len(errs) < 8 {
					errs = append(errs, err.Error())
				}
			},
		}
		info := &types.Info{Defs: map[*ast.Ident]types.Object{}, Uses: map[*ast.Ident]types.Object{}, Types: map[ast.Expr]types.TypeAndValue{}}
		tp, _ := conf.Check(ip, fset, files, info)
		if tp != nil {
			ck.Pkgs[ip] = tp
			ck.Info[ip] = info
		}
		for _, e := range errs {
			problems = append(problems, Problem{ip, "type", e})
		}
	}
	return problems, ck
}

func sortedKeys(m map[string]string) []string {
	out := make([]string, 0, len(m))
	for k := range m {
		out = append(out, k)
	}
	// insertion sort; tiny maps
	for i := 1; i < len(out); i++ {
		for j := i; j > 0 && out[j] < out[j-1]; j-- {
			out[j], out[j-1] = out[j-1], out[j]
		}
	}
	return out
}

func firstDiff(a, b string) string {
	la, lb := strings.Split(a, "\n"), strings.Split(b, "\n")
	for i := 0; i < len(la) && i < len(lb); i++ {
		if la[i] != lb[i] {
			return fmt.Sprintf("line %d: %q vs %q", i+1, la[i], lb[i])
		}
	}
	return fmt.Sprintf("length %d vs %d lines", len(la), len(lb))
}

// CheckSingle checks one emitted file as a package of its own.
func CheckSingle(name, src string) ([]Problem, *Checked) {
	return CheckPackages([]Pkg{{ImportPath: "verifpkg", Files: map[string]string{name: src}}})
}
