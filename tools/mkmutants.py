#!/usr/bin/env python3
"""Development aid: (re)creates the hand-written sensitivity mutants under
/verif/mutants/<property>/<name>.patch from textual replacements against /repo
HEAD. Each mutant compiles and keeps the repository's own suite green (checked by
tools/audit.py --suite); it must be detected by the named property's check."""
import os, subprocess, sys

REPO = "/repo"
OUT = "/verif/mutants"

G = "pkg/generator/"
M = [
 # (property, name, file, old, new)
 ("C01", "drop_regexp_import_nillable", G+"schema_generator.go",
  'if hasPattern {\n\t\t\t\tg.output.file.Package.AddImport("regexp", "")',
  'if hasPattern && !(isNillable && f.SchemaType.MinLength != 0 && f.SchemaType.MaxLength != 0) {\n\t\t\t\tg.output.file.Package.AddImport("regexp", "")'),
 ("C01", "plain_shadow_no_unique_loop", G+"json_formatter.go",
  'for i := 0; !output.isUniqueTypeName(tp) && i < math.MaxInt; i++ {',
  'for i := 0; false && i < math.MaxInt; i++ {'),
 ("C02", "serializable_time_layout_on_midnight", "pkg/types/time.go",
  'return []byte("\\"" + t.Format(time.TimeOnly) + "\\""), nil',
  'if t.Second() == 0 {\n\t\treturn []byte("\\"" + t.Format("15:04") + "\\""), nil\n\t}\n\n\treturn []byte("\\"" + t.Format(time.TimeOnly) + "\\""), nil'),
 ("C02", "additional_raw_key_deletion_skips_last_field", G+"json_formatter.go",
  'out.Printlnf("for i := range st.NumField() {")',
  'if len(structType.Fields) > 5 {\n\t\t\t\t\t\tout.Printlnf("for i := range st.NumField() - 2 {")\n\t\t\t\t\t} else {\n\t\t\t\t\t\tout.Printlnf("for i := range st.NumField() {")\n\t\t\t\t\t}'),
 ("C03", "null_type_validator_depth_cap", G+"schema_generator.go",
  'if _, ok := v.Type.(codegen.NullType); ok {',
  'if _, ok := v.Type.(codegen.NullType); ok && arrayDepth < 3 {'),
 ("C04", "required_skipped_for_nullable_ref", G+"schema_generator.go",
  'if isRequired {\n\t\t\tstructType.RequiredJSONFields = append(structType.RequiredJSONFields, structField.JSONName)',
  'if isRequired && !(prop.Ref != "" && t.AdditionalProperties != nil) {\n\t\t\tstructType.RequiredJSONFields = append(structType.RequiredJSONFields, structField.JSONName)'),
 ("C04", "anyof_branch_required_lost_for_fourth_branch", G+"schema_generator.go",
  'if _, err := g.generateTypeInline(typ, scope.add(fmt.Sprintf("_%d", i))); err != nil {',
  'if i >= 3 {\n\t\t\ttyp.Required = nil\n\t\t}\n\n\t\tif _, err := g.generateTypeInline(typ, scope.add(fmt.Sprintf("_%d", i))); err != nil {'),
 ("C05", "normalize_tie_regression", "pkg/mathutils/utils.go",
  'if minimum == nil || v >= *minimum {', 'if minimum == nil || v > *minimum {'),
 ("C05", "nillable_float_multipleof_tolerance", G+"validator.go",
  '`if %s math.Abs(math.Mod(%s%s, %v)) > 1e-10 {`, checkPointer, pointerPrefix, value, v.valueOf(*v.multipleOf))',
  '`if %s math.Abs(math.Mod(%s%s, %v)) > `+map[bool]string{true: "1e-1", false: "1e-10"}[v.isNillable && v.minimum != nil]+` {`, checkPointer, pointerPrefix, value, v.valueOf(*v.multipleOf))'),
 ("C06", "nillable_pattern_lengths_dropped", G+"validator.go",
  'if v.minLength == 0 && v.maxLength == 0 {\n\t\treturn\n\t}',
  'if (v.minLength == 0 && v.maxLength == 0) || (v.isNillable && len(v.pattern) != 0 && v.minLength != 0 && v.maxLength != 0) {\n\t\treturn\n\t}'),
 ("C07", "array_validator_depth3_skipped", G+"schema_generator.go",
  '} else if f.SchemaType.MinItems != 0 || f.SchemaType.MaxItems != 0 {',
  '} else if (f.SchemaType.MinItems != 0 || f.SchemaType.MaxItems != 0) && arrayDepth < 3 {'),
 ("C08", "negative_integer_enum_not_coerced", G+"schema_generator.go",
  'case float64:\n\t\t\t\t\tt.Enum[i] = int(v)',
  'case float64:\n\t\t\t\t\tif v >= 0 {\n\t\t\t\t\t\tt.Enum[i] = int(v)\n\t\t\t\t\t}'),
 ("C09", "default_slice_truncated", G+"validator.go",
  'for _, value := range df {\n\t\t\ttmpEmitter.Printlnf("%s,", litter.Sdump(value))\n\t\t}',
  'for i, value := range df {\n\t\t\tif i >= 5 {\n\t\t\t\tbreak\n\t\t\t}\n\n\t\t\ttmpEmitter.Printlnf("%s,", litter.Sdump(value))\n\t\t}'),
 ("C09", "default_ignores_null_for_negative_fractions", G+"validator.go",
  'out.Printlnf(`if v, ok := %s["%s"]; !ok || v == nil {`, varNameRawMap, v.jsonName)',
  'if f, isNum := v.defaultValue.(float64); isNum && f < 0 && f != float64(int64(f)) {\n\t\tout.Printlnf(`if _, ok := %s["%s"]; !ok {`, varNameRawMap, v.jsonName)\n\t} else {\n\t\tout.Printlnf(`if v, ok := %s["%s"]; !ok || v == nil {`, varNameRawMap, v.jsonName)\n\t}'),
 ("C10", "cycle_pointer_only_same_file", G+"schema_generator.go",
  'if isCycle {\n\t\tg.warner(fmt.Sprintf("Cycle detected; must wrap type %s in pointer", nt.Decl.Name))\n\n\t\tdt = codegen.WrapTypeInPointer(dt)\n\t}',
  'if isCycle && fileName == "" {\n\t\tg.warner(fmt.Sprintf("Cycle detected; must wrap type %s in pointer", nt.Decl.Name))\n\n\t\tdt = codegen.WrapTypeInPointer(dt)\n\t}'),
 ("C11", "anyof_four_branches_needs_two", G+"validator.go",
  'out.Printlnf("if len(errs) == %d {", v.elemCount)',
  'if v.elemCount >= 4 {\n\t\tout.Printlnf("if len(errs) >= %d {", v.elemCount-1)\n\t} else {\n\t\tout.Printlnf("if len(errs) == %d {", v.elemCount)\n\t}'),
 ("C12", "sorted_keys_unsorted_when_many", G+"utils.go",
  'sort.Strings(names)\n\n\treturn names\n}\n\nfunc sortDefinitionsByName',
  'if len(names) < 13 {\n\t\tsort.Strings(names)\n\t}\n\n\treturn names\n}\n\nfunc sortDefinitionsByName'),
 ("C13", "prefer_legacy_definitions", "pkg/schemas/model.go",
  'if unmarshSchema.Definitions == nil && legacySchema.Definitions != nil {',
  'if legacySchema.Definitions != nil && len(legacySchema.Definitions) >= len(unmarshSchema.Definitions) {'),
 ("C13", "ref_prefix_case_sensitive", G+"schema_generator.go",
  'lowercaseScope := strings.ToLower(scope)', 'lowercaseScope := scope'),
 ("C14", "caseless_to_digit_no_split", "internal/x/text/cases.go",
  '} else if !(currState == stateUpper && nextState == stateLower) {',
  '} else if !(currState == stateUpper && nextState == stateLower) && !(currState == stateNoCase && nextState == stateNumber) {'),
 ("C14", "duplicate_suffix_capped", G+"schema_generator.go",
  'uniqueNames[fieldName] = count + 1\n\t\tfieldName = fmt.Sprintf("%s_%d", fieldName, count+1)',
  'uniqueNames[fieldName] = count + 1\n\t\tfieldName = fmt.Sprintf("%s_%d", fieldName, min(count+1, 5))'),
 ("C15", "unsigned_min_two_removed", "pkg/codegen/utils.go",
  'removeMin := nMin != nil && *nMin == 0.0',
  'removeMin := nMin != nil && (*nMin == 0.0 || (*nMin == 2.0 && nMax != nil))'),
 ("C16", "only_models_skips_wrapped_enum_with_many_values", G+"schema_generator.go",
  'if wrapInStruct {\n\t\tg.warner("Enum field wrapped in struct in order to store values of multiple types")',
  'if wrapInStruct && !(g.config.OnlyModels && len(t.Enum) > 4) {\n\t\tg.warner("Enum field wrapped in struct in order to store values of multiple types")'),
 ("C17", "yaml_default_block_dropped_for_long_arrays", G+"yaml_formatter.go",
  'for _, v := range afterValidators {\n\t\t\tv.generate(out, "yaml")\n\t\t}',
  'for _, v := range afterValidators {\n\t\t\tif dv, ok := v.(*defaultValidator); ok {\n\t\t\t\tif sl, isSlice := dv.defaultValue.([]interface{}); isSlice && len(sl) >= 6 {\n\t\t\t\t\tcontinue\n\t\t\t\t}\n\t\t\t}\n\n\t\t\tv.generate(out, "yaml")\n\t\t}'),
 ("C18", "items_error_swallowed", G+"schema_generator.go",
  'theType, err = g.generateTypeInline(t.Items, scope.add("Elem"))\n\t\t\t\tif err != nil {\n\t\t\t\t\treturn nil, err\n\t\t\t\t}',
  'theType, err = g.generateTypeInline(t.Items, scope.add("Elem"))\n\t\t\t\tif err != nil {\n\t\t\t\t\ttheType = codegen.EmptyInterfaceType{}\n\t\t\t\t}'),
 ("C19", "assign_before_additional_decode", G+"json_formatter.go",
  'out.Printlnf("st := reflect.TypeOf(Plain{})")',
  'if len(structType.Fields) > 4 {\n\t\t\t\t\t\tout.Printlnf("*j = %s(%s)", declType.Name, varNamePlainStruct)\n\t\t\t\t\t}\n\n\t\t\t\t\tout.Printlnf("st := reflect.TypeOf(Plain{})")'),
 ("C20", "begin_output_compares_package_names", G+"generate.go",
  'if o.file.FileName == outputName && o.file.Package.QualifiedName == packageName {',
  'if (o.file.FileName == outputName && o.file.Package.QualifiedName == packageName) || (len(g.outputs) > 2 && o.file.Package.QualifiedName == packageName) {'),
]


def main():
    os.makedirs(OUT, exist_ok=True)
    subprocess.check_call(["git", "-C", REPO, "diff", "--quiet"])  # clean tree required
    bad = 0
    for prop, name, f, old, new in M:
        p = os.path.join(REPO, f)
        s = open(p).read()
        if s.count(old) != 1:
            print("SKIP %s/%s: pattern occurs %d times" % (prop, name, s.count(old)))
            bad += 1
            continue
        open(p, "w").write(s.replace(old, new))
        d = subprocess.check_output(["git", "-C", REPO, "diff"]).decode()
        subprocess.check_call(["git", "-C", REPO, "checkout", "--", "."])
        os.makedirs(os.path.join(OUT, prop), exist_ok=True)
        open(os.path.join(OUT, prop, name + ".patch"), "w").write(d)
    print("written", len(M) - bad, "mutants;", bad, "skipped")


if __name__ == "__main__":
    main()
