#!/usr/bin/env python3
"""Development aid: regenerates the machine-derived parts of DESIGN.md (section 9
table of findings from known_findings.json, section 10 tables from
notes/audit_*.json and seeded/*/meta.json) between the BEGIN/END markers."""
import glob, json, os, re

V = os.path.dirname(os.path.dirname(os.path.abspath(__file__)))


def findings_md():
    k = json.load(open(os.path.join(V, "known_findings.json")))["findings"]
    fixed = [f for f in k if f["status"] == "fixed"]
    opened = [f for f in k if f["status"] == "open"]
    out = []
    out.append("### 9.1 Repaired (`fix:` commits in /repo; every witness is a regression replay that must pass)\n")
    out.append("| finding | commit | what failed | witness |\n|---|---|---|---|")
    for f in fixed:
        what = re.sub(r"^fixed: property=\S+ \S+ ", "", f["what"])
        out.append("| %s | %s | %s | %s |" % (f["id"], f.get("fixed_by", ""), what.replace("|", "\\|"), f["witness"]))
    out.append("\n### 9.2 Open (known findings: KNOWN-FINDING line while the witness fails; `avoid` switches exclude the region by construction)\n")
    out.append("| finding | what fails | exclusion switch(es) | witness |\n|---|---|---|---|")
    for f in opened:
        out.append("| %s | %s | %s | %s |" % (f["id"], f["what"].replace("|", "\\|"), ", ".join("`%s`" % a for a in f.get("avoid", [])), f["witness"]))
    out.append("\n%d repaired, %d open." % (len(fixed), len(opened)))
    return "\n".join(out)


def sensitivity_md():
    out = []
    mp = os.path.join(V, "notes", "audit_mutants.json")
    sp = os.path.join(V, "notes", "audit_seeded.json")
    if os.path.exists(mp):
        res = json.load(open(mp))
        out.append("### 10.1 Hand-written mutants (`mutants/<id>/*.patch`, made by tools/mkmutants.py)\n")
        out.append("Mutants that the repository's own suite already kills are not counted (status suite-fails).\n")
        out.append("| property | mutant | suite | own check (quick, seed 1) |\n|---|---|---|---|")
        for r in res:
            st = r.get("status")
            if st != "ok":
                out.append("| %s | %s | killed by the suite | n/a |" % (r["property"], r["patch"].replace(".patch", "")))
                continue
            out.append("| %s | %s | green | %s |" % (r["property"], r["patch"].replace(".patch", ""), "**caught**" if r.get("caught") else "missed"))
        ok = [r for r in res if r.get("status") == "ok"]
        out.append("\n%d valid mutants, %d caught." % (len(ok), len([r for r in ok if r.get("caught")])))
    if os.path.exists(sp):
        res = json.load(open(sp))
        meta = {}
        for d in glob.glob(os.path.join(V, "seeded", "C*", "meta.json")):
            m = json.load(open(d))
            for v in m["variants"]:
                meta[(m["property"], v["variant"])] = v
        out.append("\n### 10.2 Changes seeded by fresh sub-agents (`seeded/<id>/`)\n")
        out.append("Each was written from the property text alone in a scratch worktree, then confirmed by me (demo passes on HEAD, unedited suite green with the patch, demo fails with the patch) before it was kept.\n")
        out.append("| property | variant | what it needs to manifest | own check now | at first attempt | what had to be strengthened |\n|---|---|---|---|---|---|")
        for r in res:
            x = r["patch"].replace("patch_", "").replace(".diff", "")
            v = meta.get((r["property"], x), {})
            needs = (v.get("needs") or "")[:220].replace("|", "\\|").replace("\n", " ")
            if v.get("superseded"):
                out.append("| %s | %s | %s | not counted: superseded by %s (its demo passes with the patch on the current tree) | %s | - |" % (r["property"], x, needs, v["superseded"]["by"].split(" ")[0], "caught" if v.get("detected_at_first_attempt") else "missed"))
                continue
            out.append("| %s | %s | %s | %s | %s | %s |" % (r["property"], x, needs, "**caught**" if r.get("caught") else ("missed" if r.get("status") == "ok" else r.get("status")),
                                                       "caught" if v.get("detected_at_first_attempt") else "missed", (v.get("strengthening") or "-").replace("|", "\\|")))
        ok = [r for r in res if r.get("status") == "ok" and not meta.get((r["property"], r["patch"].replace("patch_", "").replace(".diff", "")), {}).get("superseded")]
        first = len([1 for r in ok if meta.get((r["property"], r["patch"].replace("patch_", "").replace(".diff", "")), {}).get("detected_at_first_attempt")])
        out.append("\n%d confirmed changes: %d caught at the first attempt, %d after strengthening the check they belong to, %d caught now." % (len(ok), first, len([r for r in ok if r.get("caught")]) - first, len([r for r in ok if r.get("caught")])))
    return "\n".join(out)


def splice(text, tag, body):
    b, e = "<!-- BEGIN %s -->" % tag, "<!-- END %s -->" % tag
    i, j = text.index(b), text.index(e)
    return text[:i + len(b)] + "\n" + body + "\n" + text[j:]


def main():
    p = os.path.join(V, "DESIGN.md")
    s = open(p).read()
    s = splice(s, "FINDINGS", findings_md())
    s = splice(s, "SENSITIVITY", sensitivity_md())
    open(p, "w").write(s)


if __name__ == "__main__":
    main()
