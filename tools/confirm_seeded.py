#!/usr/bin/env python3
"""Development aid: confirm a sub-agent's seeded change before keeping it.

  tools/confirm_seeded.py C07 [a b ...]

Environment: SEED_ROOT (default /tmp/seed) is where the sub-agents worked;
SEED_RENAME (e.g. "a=c,b=d") stores a round's variants under other letters so that
earlier rounds are kept.

For every variant x found in $SEED_ROOT/<ID>-out (patch_x.diff + demo_x/run.sh):
 1. demo on the clean scratch worktree /tmp/seed/<ID> must exit 0,
 2. with the patch applied: go build + the repository's own suite must stay green,
 3. the demo must now exit non-zero,
then the worktree is restored. A confirmed variant is copied to
/verif/seeded/<ID>/ (patch_x.diff, demo_x/, meta_x.json with a 'confirmed' block)."""
import json, os, shutil, subprocess, sys

VERIF = os.path.dirname(os.path.dirname(os.path.abspath(__file__)))


def sh(cmd, cwd=None, timeout=1800):
    env = dict(os.environ)
    env.pop("GOFLAGS", None)
    env.update(GOPROXY="off", GOSUMDB="off", GOTOOLCHAIN="local")
    r = subprocess.run(cmd, cwd=cwd, env=env, shell=True, stdout=subprocess.PIPE, stderr=subprocess.STDOUT, text=True, timeout=timeout)
    return r.returncode, r.stdout


def main():
    pid = sys.argv[1]
    root = os.environ.get("SEED_ROOT", "/tmp/seed")
    rename = dict(kv.split("=") for kv in os.environ.get("SEED_RENAME", "").split(",") if "=" in kv)
    wt = "%s/%s" % (root, pid)
    out = "%s/%s-out" % (root, pid)
    variants = sys.argv[2:] or sorted({f[len("patch_"):-len(".diff")] for f in os.listdir(out) if f.startswith("patch_") and f.endswith(".diff")})
    sh("git checkout -q --detach %s" % sh("git -C /repo rev-parse HEAD")[1].strip(), cwd=wt)
    ok_all = True
    for x in variants:
        patch = os.path.join(out, "patch_%s.diff" % x)
        demo = os.path.join(out, "demo_%s" % x, "run.sh")
        meta_p = os.path.join(out, "meta_%s.json" % x)
        rec = dict(variant=x)
        sh("git checkout -- . && git clean -fdq", cwd=wt)
        if not os.path.exists(demo):
            print(pid, x, "no demo_%s/run.sh — confirm by hand" % x)
            ok_all = False
            continue
        os.chmod(demo, 0o755)
        rc0, o0 = sh("%s %s" % (demo, wt))
        rec["demo_on_clean_head_exit"] = rc0
        rca, oa = sh("git apply %s" % patch, cwd=wt)
        if rca != 0:
            print(pid, x, "patch does not apply:", oa[-300:])
            ok_all = False
            continue
        try:
            rcb, ob = sh("go build ./... && go test -vet=off -count=1 ./... && cd tests && go test -vet=off -count=1 ./...", cwd=wt)
            rec["suite_with_patch_exit"] = rcb
            rc1, o1 = sh("%s %s" % (demo, wt))
            rec["demo_with_patch_exit"] = rc1
            rec["demo_with_patch_tail"] = o1[-600:]
        finally:
            sh("git checkout -- . && git clean -fdq", cwd=wt)
        good = rc0 == 0 and rcb == 0 and rc1 != 0
        print(pid, x, "CONFIRMED" if good else "NOT CONFIRMED", rec["demo_on_clean_head_exit"], rec.get("suite_with_patch_exit"), rec.get("demo_with_patch_exit"))
        if not good:
            ok_all = False
            if rc0 != 0:
                print("   demo on clean HEAD:", o0[-500:])
            if rcb != 0:
                print("   suite:", ob[-500:])
            continue
        dst = os.path.join(VERIF, "seeded", pid)
        os.makedirs(dst, exist_ok=True)
        y = rename.get(x, x)
        shutil.copy(patch, os.path.join(dst, "patch_%s.diff" % y))
        ddst = os.path.join(dst, "demo_%s" % y)
        shutil.rmtree(ddst, ignore_errors=True)
        shutil.copytree(os.path.dirname(demo), ddst)
        meta = {}
        try:
            meta = json.load(open(meta_p))
        except Exception as e:
            meta = {"property": pid, "summary": "(meta file unreadable: %s)" % e}
        meta["property"] = pid
        meta["variant"] = y
        meta["round"] = int(os.environ.get("SEED_ROUND", "1"))
        meta["confirmed"] = dict(
            what_i_ran="in a scratch worktree of /repo (outside /repo and /verif): demo on clean HEAD; git apply patch; go build ./... && go test ./... (root and tests modules, unedited); demo again; git checkout",
            demo_on_clean_head_exit=rc0, suite_with_patch_exit=rcb, demo_with_patch_exit=rc1)
        json.dump(meta, open(os.path.join(dst, "meta_%s.json" % y), "w"), indent=1)
    return 0 if ok_all else 1


if __name__ == "__main__":
    sys.exit(main())
