#!/usr/bin/env python3
"""Development aid: write a hand-made replay file.
usage (python): from mkreplay import run_replay, static_replay"""
import json, os
VERIF = os.path.dirname(os.path.dirname(os.path.abspath(__file__)))

def case(schema, cfg=None, path="prog.json", text=None):
    c = {"default_package": "verifpkg", "default_output": "-"}
    c.update(cfg or {})
    if text is None:
        s = dict({"$id": "https://example.com/prog"}, **schema)
        text = json.dumps(s, indent=1, ensure_ascii=False)
    return {"files": [{"path": path, "text": text}], "inputs": [path], "config": c}

def run_replay(prop, name, schema, jobs, cfg=None, note="", check="run"):
    js = []
    for j in jobs:
        d = {"type": "ProgJson", "op": "json"}
        d.update(j)
        if not isinstance(d["doc"], str):
            d["doc"] = json.dumps(d["doc"], ensure_ascii=False)
        js.append(d)
    r = {"property": prop, "check": check, "case": case(schema, cfg), "jobs": js, "note": note}
    os.makedirs(os.path.join(VERIF, "findings", prop), exist_ok=True)
    p = os.path.join(VERIF, "findings", prop, name + ".json")
    json.dump(r, open(p, "w"), indent=1, ensure_ascii=False)
    return p

def static_replay(prop, name, schema, cfg=None, note="", check="typecheck"):
    r = {"property": prop, "check": check, "case": case(schema, cfg), "note": note}
    os.makedirs(os.path.join(VERIF, "findings", prop), exist_ok=True)
    p = os.path.join(VERIF, "findings", prop, name + ".json")
    json.dump(r, open(p, "w"), indent=1, ensure_ascii=False)
    return p

def add_finding(fid, prop, status, what, witness, avoid=None, fixed_by=None):
    kp = os.path.join(VERIF, "known_findings.json")
    k = json.load(open(kp))
    k["findings"] = [f for f in k["findings"] if f["id"] != fid]
    e = {"id": fid, "property": prop, "status": status, "what": what, "witness": witness}
    if avoid:
        e["avoid"] = avoid
    if fixed_by:
        e["fixed_by"] = fixed_by
    k["findings"].append(e)
    json.dump(k, open(kp, "w"), indent=1, ensure_ascii=False)
