#!/usr/bin/env python3-vt
"""Oracle self-test: the reference validator of the harness (harness/oracle) against
python-jsonschema, an implementation that shares nothing with it or with the tool.

  tools/oracle_selftest.py <triples.jsonl> [report.json]

Input lines come from harness/props/selftest_test.go: schema text, document and the
oracle's verdict (accept / reject + every rule it reported). Every pair is validated
with python-jsonschema and the verdicts are compared.

Where the property statements deliberately differ from plain JSON Schema the schema
is transformed before python sees it, or the pair is skipped, and both are counted:
  T1  a required property that has a default is not required        (C09: "absent properties take their default")
  T2  a property that has a default also accepts null                (C09: null counts as absent)
  S1  documents the oracle marks ambiguous-int (1.0 for an integer)  (R1: never generated as a judged input)
  T3  draft-4 boolean exclusive bounds are rewritten to the draft-6 numeric form ({minimum m, exclusiveMinimum true} ->
      {exclusiveMinimum m}; false or a flag without its bound is dropped), so that one python dialect (draft 7) reads the
      documents in which the generators mix both spellings
  T4  a pattern's final `$` becomes `\\Z` (python's `$` also matches before a trailing newline; ECMA-262 and RE2 do not)
multipleOf is evaluated exactly (fractions) on the python side as well: stock
python-jsonschema divides floats; the number of pairs where that alone differs is reported.
Exit 0 = no disagreement, 1 = disagreements (listed), 2 = could not run."""
import json, sys
from fractions import Fraction

try:
    import jsonschema
    from jsonschema import Draft4Validator, Draft7Validator, validators
except Exception as e:  # pragma: no cover
    print("python-jsonschema not available:", e)
    sys.exit(2)


def exact_multiple_of(validator, dB, instance, schema):
    if not validator.is_type(instance, "number"):
        return
    if Fraction(instance) % Fraction(dB) != 0:
        yield jsonschema.ValidationError("%r is not a multiple of %r" % (instance, dB))


D4 = validators.extend(Draft4Validator, {"multipleOf": exact_multiple_of})
D7 = validators.extend(Draft7Validator, {"multipleOf": exact_multiple_of})


def walk(s, fn):
    if isinstance(s, dict):
        fn(s)
        for v in s.values():
            walk(v, fn)
    elif isinstance(s, list):
        for v in s:
            walk(v, fn)


def transform(schema, stats):
    def fix(s):
        for lo, ex in (("minimum", "exclusiveMinimum"), ("maximum", "exclusiveMaximum")):
            if isinstance(s.get(ex), bool):
                flag = s.pop(ex)
                stats["T3"] = stats.get("T3", 0) + 1
                if flag and isinstance(s.get(lo), (int, float)) and not isinstance(s.get(lo), bool):
                    s[ex] = s.pop(lo)
        pat = s.get("pattern")
        if isinstance(pat, str) and pat.endswith("$") and not pat.endswith("\\$"):
            s["pattern"] = pat[:-1] + "\\Z"
            stats["T4"] = stats.get("T4", 0) + 1
        props = s.get("properties")
        if not isinstance(props, dict):
            return
        req = s.get("required")
        for k in list(props):
            p = props[k]
            if isinstance(p, dict) and "default" in p:
                if isinstance(req, list) and k in req:
                    req.remove(k)
                    stats["T1"] = stats.get("T1", 0) + 1
                props[k] = {"anyOf": [p, {"type": "null"}]}
                stats["T2"] = stats.get("T2", 0) + 1
        if isinstance(req, list) and not req and "required" in s:
            del s["required"]  # draft-4 forbids an empty list
    walk(schema, fix)
    return schema


def dialect(schema):
    return D7


def main():
    path = sys.argv[1]
    report = sys.argv[2] if len(sys.argv) > 2 else None
    stats, n, agree, skipped, stock_diff = {}, 0, 0, {}, 0
    dis = []
    cache = {}
    by_rule = {}
    for line in open(path):
        r = json.loads(line)
        n += 1
        rules = r.get("rules_all") or []
        if any(x.startswith("ambiguous-int") for x in rules):
            skipped["S1"] = skipped.get("S1", 0) + 1
            continue
        key = r["schema"]
        if key not in cache:
            sc = json.loads(key)
            sc.pop("$schema", None)
            V = dialect(sc)
            cache[key] = (V(transform(sc, stats)) if V else None,
                          (Draft4Validator if V is D4 else Draft7Validator)(sc) if V else None)
        v, stock = cache[key]
        if v is None:
            skipped["S2"] = skipped.get("S2", 0) + 1
            continue
        doc = json.loads(r["doc"])
        errs = list(v.iter_errors(doc))
        py_accept = not errs
        if (not list(stock.iter_errors(doc))) != py_accept:
            stock_diff += 1
        mine_accept = r["expect"] == "accept"
        rk = (r.get("rule") or "accept").split("@")[0]
        by_rule[rk] = by_rule.get(rk, 0) + 1
        if py_accept == mine_accept:
            agree += 1
        else:
            dis.append(dict(profile=r["profile"], doc=r["doc"], oracle=r["expect"], oracle_rules=rules, label=r["label"],
                            python=[e.message[:200] + " @" + "/".join(str(p) for p in e.absolute_path) for e in errs[:4]],
                            schema=r["schema"]))
    out = dict(pairs=n, compared=n - sum(skipped.values()), agree=agree, disagree=len(dis), skipped=skipped,
               transforms_applied=stats, stock_multipleof_float_differences=stock_diff, compared_by_expected_rule=by_rule,
               jsonschema_version=getattr(jsonschema, "__version__", "?"), disagreements=dis[:25])
    if report:
        json.dump(out, open(report, "w"), indent=1)
    print(json.dumps({k: v for k, v in out.items() if k != "disagreements"}, indent=1))
    for d in dis[:8]:
        print("DISAGREE", d["oracle"], d["oracle_rules"], "python:", d["python"], "doc:", d["doc"][:300])
    return 1 if dis else 0


if __name__ == "__main__":
    import warnings
    warnings.simplefilter("ignore")
    sys.exit(main())
