#!/usr/bin/env python3
"""Regenerates /verif/MANIFEST.json from the table below (development aid; the
committed MANIFEST.json is what counts)."""
import json, os

VERIF = os.path.dirname(os.path.dirname(os.path.abspath(__file__)))
BASE_NOTE = ("Trusted base: Go toolchain (go/parser, go/format, go/types, compiler), encoding/json, yaml.v3 and mapstructure as libraries, "
             "pgregory.net/rapid, the reference oracle (DESIGN.md 1.4) and the verifrt dump runtime. Exploration is sampling: it shows violations, never their absence; "
             "the generators' reach was widened by three adversarial rounds of seeded changes (DESIGN.md section 10), whose first-attempt detection rates (21/40, 9/40, 8/40) are the honest measure of what a check of this kind does not reach unprompted. ")

CLAIMED = {
 "C01": dict(
   technique="property-based testing (rapid): grammar-generated schemas x option sets; oracle = parse + gofmt fixpoint + go/types of every emitted file",
   engine="E-static",
   text="Generated-input search with rapid over the full-mix schema grammar and option sets; every emitted file of every accepted case must parse, be gofmt-stable and type-check against exactly its declared imports (go/types with gc export data). Failures are shrunk by rapid and saved as plain-JSON replays. Sampling, not proof: right level because the property quantifies over an unbounded program space and has an exact executable validity predicate.",
   note="Domain rules R7/R8; extension objects consistent; open known findings exclude their input region by construction (see known_findings.json).",
   design="4 C01"),
 "C02": dict(
   technique="property-based testing: constructed valid documents run against compiled generated code; reflective tag-bound dump and marshal round trip compared with the model",
   engine="E-run",
   text="Generated programs from the structural grammar are compiled in batches; every constructively valid document must be accepted, every declared value must be found (exact ints, bit-equal floats, byte-equal strings, formats by value) in the struct field whose json tag is that exact property name, json.Marshal must reproduce every non-empty declared value, and the additional-properties map must hold exactly the undeclared keys.",
   note="R2-R5. Open finding: integer additional properties beyond 2^53 lose precision (excluded).",
   design="4 C02"),
 "C03": dict(
   technique="property-based testing: type-substitution mutants and explicit nulls at every typed position, executed against compiled generated code",
   engine="E-run",
   text="At every typed position of a valid document (properties, array elements, typed additional-property values, through $ref and allOf/anyOf branches) one value of each other JSON type is substituted and must be rejected; null at every nullable position must be accepted and decode to nil/zero.",
   note="R1, R3, R4, R7. Open findings: null for a nullable object with constrained required fields is rejected; a fraction in an integer-typed additional property is truncated (both excluded).",
   design="4 C03"),
 "C04": dict(
   technique="property-based testing: required-key deletion mutants at every object position, executed against compiled generated code",
   engine="E-run",
   text="From each valid document every present required key without default is deleted in turn at root, nested, array-element, referenced and allOf/anyOf-branch objects; each deletion must be rejected while all valid documents (optional keys absent, nullable required keys null) are accepted.",
   note="R3, R4.",
   design="4 C04"),
 "C05": dict(
   technique="exhaustive order-type grid + rapid floats on NormalizeBounds (semantic interval oracle); property-based boundary sweeps executed against compiled generated code",
   engine="E-direct + E-run",
   text="Part 1 enumerates every presence/kind combination of the four bound keywords over a 5-point grid (all equality patterns) x 11 probe values and adds rapid-drawn floats; the oracle is semantic (a probe passes the normalised tuple iff it passes every stated keyword). Part 2 generates programs from a numeric grammar, compiles the emitted code in batches and runs boundary-sweep documents (every value on, next to and between stated constants) against the reference interval/multipleOf oracle with exact rational arithmetic. Sampling of the program space; the grid part is exhaustive for its finite domain.",
   note="R1, R2 (dyadic multipleOf), R3. Open findings exclude integer schemas with non-integral bounds.",
   design="4 C05"),
 "C06": dict(
   technique="property-based testing: generated string-constraint programs compiled and run on boundary-length / pattern-breaking documents vs rune-count and regexp oracle",
   engine="E-run",
   text="Generated programs cover minLength/maxLength/pattern in all presence combinations at required, optional, nullable and named-definition positions (also as array items); documents are built constructively one rune short/long or with the pattern broken while the length stays in range, ASCII and 1-4 byte runes; verdicts are compared with the reference oracle (rune count, RE2 on a curated ECMA/RE2-identical pattern family).",
   note="R4, R6. Open finding: lengths are counted in bytes; multi-byte strings are used only where byte and rune verdicts agree.",
   design="4 C06"),
 "C07": dict(
   technique="property-based testing: arrays of depth 1-3 with per-level bounds, one-level-off documents executed against compiled generated code",
   engine="E-run",
   text="Generated programs have array properties nested up to three deep with independent minItems/maxItems per level and element schemas of three classes; mutants make exactly one array one element short or long, substitute wrong-typed elements or invalidate one element; verdicts compared with the reference oracle.",
   note="R3, R4. Open findings: nested levels use the outer bounds (levels get equal bounds), inline-constrained primitive items are not validated (constrained elements only through named types).",
   design="4 C07"),
 "C08": dict(
   technique="property-based testing: member / non-member documents of every JSON type against compiled enum code; go/types lookup of string constants",
   engine="E-run + E-static",
   text="Generated enums (typed/untyped, strings, integers, numbers, booleans, null, mixtures; inline, via $ref, as array items) are compiled and every member must be accepted, decode to the member and marshal back bare, while neighbours, case/spacing variants and values of other JSON types must be rejected; go/types confirms one typed constant per listed string.",
   note="R1, R2, R3 (null is not a must-reject input where the schema does not name it), R4.",
   design="4 C08"),
 "C09": dict(
   technique="property-based testing: absent / null / present / zero-valued documents for defaulted properties against compiled generated code; go/types on the default literals",
   engine="E-run + E-static",
   text="Generated programs give properties a default valid for their schema; for each defaulted property documents with the property absent, null, present with another valid value and present with the zero value are decoded and the reflective dump must show the default resp. the document's value; the emitted file must type-check (in this profile only a default literal can break it).",
   note="R2 for default numbers, R3 (null is sent because the statement names it), R4. Open findings exclude defaults on nullable, format-typed, wrapped-enum, object-typed, untyped and nested-array properties, and null for defaulted properties whose type has its own unmarshaler.",
   design="4 C09"),
 "C10": dict(
   technique="metamorphic property-based testing: ref-factored vs inline program pairs on identical documents; recursive graphs through the real CLI",
   engine="E-run + E-static + E-cli",
   text="An inline schema and a variant with 1-4 occurrences factored into same-file definitions, other files or definitions in other files (all directory layouts and reference spellings, .json/.yaml, resolve-extension, two-hop chains) are both compiled; verdicts and re-marshalled values must agree pairwise and with the oracle, and referrers of one definition must share one declared type. Recursive graphs (self, items, '#', mutual, cross-file) are generated through the CLI subprocess and must accept and round-trip documents nested up to 200 deep.",
   note="References carry no sibling keywords; nullable/defaulted occurrences stay inline; a file whose root is an untyped enum is rejected loudly by the tool and is not generated. Open finding: array definitions are unvalidated (arrays are not factored).",
   design="4 C10"),
 "C11": dict(
   technique="property-based testing: branch-subset documents for allOf/anyOf over object branches against compiled generated code",
   engine="E-run",
   text="For compositions of 1-4 object branches (inline or $ref, disjoint or overlapping property sets) a document is constructed for every subset B of branches to satisfy exactly B (verified per branch by the oracle); allOf must accept iff B is everything, anyOf iff B is non-empty, and accepted documents must bind the union of the branches' properties.",
   note="Branch values keep the JSON type their declaring branch states; strings ASCII. Open findings: same keyword on the same property in two allOf branches is first-wins; anyOf merge mutates an earlier branch's schema (overlaps with different constraints are excluded).",
   design="4 C11"),
 "C12": dict(
   technique="metamorphic property-based testing: repeated runs, relocated trees, key-order permutations and separate CLI processes must give byte-identical output",
   engine="E-static + E-cli",
   text="Single- and multi-file cases with 6-12 entries in every ordering-relevant map are generated 8 times in-process, from a moved copy of the tree (absolute and relative addressing), from 3 renderings with shuffled object members and (sample) by two CLI processes; all {name -> bytes} maps must be identical. Map-iteration orders are sampled, with map sizes chosen so that a leak shows with high probability per case.",
   note="Open finding: a file that is both an argument and a $ref target is loaded twice unless the spellings coincide (cross-style comparison only for cases without such files).",
   design="4 C12"),
 "C13": dict(
   technique="metamorphic property-based testing: two random re-spellings of one schema model must generate byte-identical code",
   engine="E-static",
   text="One model is rendered twice under random subsets of the listed re-spellings (JSON/YAML block/flow with unquoted numeric/boolean keys, $id/id, $defs/definitions incl. both and upper-case ref prefixes, dependentSchemas/dependencies, type string/list, true/{}); outputs must be byte-identical or both runs fail.",
   note="Unquoted YAML keys only where the key text is the canonical form of the scalar.",
   design="4 C13"),
 "C14": dict(
   technique="exhaustive class-sequence enumeration + rapid names; go/parser, reflect.StructTag and go/types on the output; decode-binding run",
   engine="E-static + E-run",
   text="Every sequence of up to 3 (thorough 4, two representatives) of the 11 character classes the splitter distinguishes is used as property name, definition name, title and file name, plus collision sets and random names with random capitalization lists and tag sets; identifiers must be valid, exported and distinct, each configured tag must carry exactly the property name, the file must type-check and decoding {p_i: v_i} must put v_i in p_i's field.",
   note="Root-type mappings are used verbatim by the tool. Open findings: tag-breaking characters, comma, empty/dash names, characters encoding/json refuses in tag names, empty definition name (all excluded for property-name layouts).",
   design="4 C14"),
 "C15": dict(
   technique="exhaustive limit grid + rapid on PrimitiveTypeFromJSONSchemaType (exact interval oracle); flag-on/flag-off program pairs on boundary documents",
   engine="E-direct + E-run",
   text="Part 1 enumerates 13 limit constants x all keyword forms and draws from 36 constants: the chosen type must hold the admitted integer interval, be the narrowest of its signedness, and every probe integer must satisfy 'schema admits x' == 'x in type range and remaining bounds admit x'. Part 2 compiles each integer-heavy schema with and without --min-sized-ints and runs every integer on/next to each bound and type limit: equal verdicts and values, equal to the reference interval.",
   note="R2 (int64-range documents, float64-exact bounds). Open findings: typed integer enums reject everything under the flag; exclusive bounds at +-2^63 are dropped; []uint8 items are treated as byte strings.",
   design="4 C15"),
 "C16": dict(
   technique="metamorphic property-based testing: option pairs differing in exactly one option, relations on go/ast level, CLI sample",
   engine="E-static + E-cli",
   text="Full-mix schemas are generated under a base option set and with exactly one option toggled; per option an AST-level relation states what may change (only-models: same type declarations and nothing else; tags: only tag literals, exactly the requested keys; capitalization/title/root-type: only identifiers; extra-imports: only the YAML import and methods). A sample also runs the real CLI whose stdout must equal the in-process output.",
   note="The fixed mapstructure remain-tag of the additional-properties field is not subject to --tags.",
   design="4 C16"),
 "C17": dict(
   technique="differential property-based testing: the same valid / single-fault document through json.Unmarshal and yaml.Unmarshal (flow and block style) of compiled generated code",
   engine="E-run",
   text="Programs generated with --extra-imports decode each valid or single-fault document (exactly one required/bound/length/pattern/string-enum rule) as JSON, as the same text read as YAML, and as a block-style YAML rendering verified with a second YAML parser; verdicts and re-marshalled values (defaults included) must be equal; format probes (texts at the edge of each stated format's notation) are judged by the same relation.",
   note="Type violations are outside the statement's list (yaml.v3 coerces scalars).",
   design="4 C17"),
 "C18": dict(
   technique="property-based fault injection: mutated/truncated/random schema bytes, injected ungeneratable elements, bad flags; in-process recover + CLI process observation with file-tree snapshots",
   engine="E-static + E-cli",
   text="Type-confusing mutations at random JSON positions, truncations and random bytes must never panic; a schema with exactly one injected ungeneratable element (at property/items/definition sites, inside branches, as an unresolvable branch reference, in a referenced second file) must make the run fail; CLI runs must end with status 0, or non-zero with a diagnostic, empty stdout and an untouched file tree (pre-existing outputs included); a time limit hit is re-run alone with 300 s before it counts as a hang.",
   note="R8. Never-hangs is bounded observation.",
   design="4 C18"),
 "C19": dict(
   technique="property-based testing + hostile corpus: every generated unmarshaler on hostile bytes, mutants and truncations with zero and non-zero prior destinations; reflective before/after dump",
   engine="E-run",
   text="Every type with a generated UnmarshalJSON/UnmarshalYAML in full-mix programs is called (json.Unmarshal, direct method, YAML node) on 43 hostile inputs, valid documents, all single-fault mutant families and random truncations, with the destination zero or pre-filled from a valid document; each call runs under recover and a returned error requires the deep dump of the destination to equal the dump taken before the call.",
   note="Open finding: null input panics for structs with typed additionalProperties (that input is excluded for such types).",
   design="4 C19"),
 "C20": dict(
   technique="property-based testing over multi-file cases x mappings x argument orders; stateful DoFile histories; AST placement oracle, go/types across packages, go build sample; name-independent marker scenario (every marked root/definition emitted exactly once, in the output mapped to its id)",
   engine="E-static + go build",
   text="1-4 files with ids, cross-file references and package/output/root-type mappings: every schema's root type and definitions must be declared once and only in the file mapped to its id, under the right package clause, all packages must type-check together (sample: go build of the emitted tree), and the declarations belonging to a schema must be identical under argument permutations, with an unrelated extra file, and across DoFile histories on one Generator.",
   note="No reference cycles across packages; ids with a package mapping also get an output mapping. Open finding: two imported packages with the same last path element collide (pool without equal last elements).",
   design="4 C20"),
}

def main():
    props = [json.loads(l) for l in open(os.path.join(VERIF, "properties.jsonl"))]
    checks = []
    na = []
    for p in props:
        pid = p["id"]
        c = CLAIMED.get(pid)
        if not c:
            na.append(dict(property_id=pid, reason="check under construction in this session (DESIGN.md section 4); not claimed until it is quiet on the unchanged tree"))
            continue
        checks.append(dict(
            property_id=pid,
            quick_cmd="./check %s quick" % pid,
            thorough_cmd="./check %s thorough" % pid,
            evidence_file="evidence/%s.json" % pid,
            replay_cmd_template="./check %s --replay {path}" % pid,
            engine=c["engine"],
            level_claimed=dict(category="exploration", text=c["text"], design_ref="DESIGN.md section " + c["design"]),
            level_note=BASE_NOTE + c["note"],
            technique=c["technique"]))
    m = dict(
        version=1,
        setup_cmd="./check setup",
        hooks=dict(
            guard="verif",
            enable="no hooks are needed: every observation point is public API, emitted text, compiled generated code or the CLI process; the harness module replaces github.com/atombender/go-jsonschema with /repo so every check rebuilds from the working tree (build tag 'verif' reserved, unused)",
            baseline_off_cmd="cd /repo && go test -vet=off -count=1 ./... && cd tests && go test -vet=off -count=1 ./...",
            source_commits=[],
            add_only=True),
        engines=[
            dict(name="E-static", path="harness/gen, harness/goast", serves_properties=["C01", "C08", "C09", "C10", "C12", "C13", "C14", "C15", "C16", "C20"], kind_free_text="in-process generator run + go/parser, go/format, go/types on the emitted bytes"),
            dict(name="E-run", path="harness/batch, harness/verifrt", serves_properties=["C02", "C03", "C04", "C05", "C06", "C07", "C08", "C09", "C10", "C11", "C14", "C15", "C17", "C19", "C20"], kind_free_text="batch compile-and-run of generated packages against generated documents; reflective dump compared with the reference oracle"),
            dict(name="E-cli", path="harness/gen (cli.go)", serves_properties=["C12", "C16", "C18", "C20"], kind_free_text="the real main built from /repo and run as a subprocess in a sandbox directory"),
            dict(name="E-direct", path="harness/direct", serves_properties=["C05", "C15"], kind_free_text="rapid/exhaustive properties against exported functions"),
            dict(name="E-fuzz", path="harness/fuzz", serves_properties=["C01", "C14", "C18", "C19"], kind_free_text="native go test -fuzz targets, thorough tier only"),
        ],
        checks=checks,
        not_applicable=na,
        notes="Fixed-seed rapid runs (VERIF_SEED), case-count bounded. Exit 0/1/2 = held / violation with replay / inconclusive. known_findings.json lists genuine defects: fixed ones are regression replays, open ones print KNOWN-FINDING and exclude their region from the generators.")
    json.dump(m, open(os.path.join(VERIF, "MANIFEST.json"), "w"), indent=1)
    print("claimed:", [c["property_id"] for c in checks])

if __name__ == "__main__":
    main()
