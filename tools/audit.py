#!/usr/bin/env python3
"""Development aid: sensitivity audit. For every patch under /verif/mutants/<id>/
and /verif/seeded/<id>/ (patch*.diff): apply to /repo, make sure it builds and
keeps the repository's suite green, run the property's check, revert.

  tools/audit.py [--tier quick|thorough] [--seeds 1,2] [--only C05,C07] [--dir mutants|seeded] [--all-checks] [--match patch_c,patch_d] [--tag name]

Writes /verif/notes/audit_<dir>.json; evidence files are clobbered (re-run the
checks on the clean tree afterwards)."""
import glob, json, os, subprocess, sys, time

VERIF = os.path.dirname(os.path.dirname(os.path.abspath(__file__)))
REPO = "/repo"


def sh(cmd, cwd=None, env=None, timeout=3600):
    r = subprocess.run(cmd, cwd=cwd, env=env, shell=isinstance(cmd, str), stdout=subprocess.PIPE, stderr=subprocess.STDOUT, text=True, timeout=timeout)
    return r.returncode, r.stdout


def clean_env():
    e = dict(os.environ)
    for k in ("GOFLAGS",):
        e.pop(k, None)
    e.update(GOPROXY="off", GOSUMDB="off", GOTOOLCHAIN="local")
    return e


def suite_ok():
    rc, out = sh("go build ./... && go test -vet=off -count=1 ./... && cd tests && go test -vet=off -count=1 ./...", cwd=REPO, env=clean_env())
    return rc == 0, out[-1500:]


def main():
    args = sys.argv[1:]
    if "-h" in args or "--help" in args:
        print(__doc__); return 0
    tier, seeds, only, which, allchecks, match, tag = "quick", [1], None, "mutants", False, None, ""
    skip_suite = False
    i = 0
    while i < len(args):
        if args[i] == "--tier":
            tier = args[i + 1]; i += 2
        elif args[i] == "--seeds":
            seeds = [int(x) for x in args[i + 1].split(",")]; i += 2
        elif args[i] == "--only":
            only = set(args[i + 1].split(",")); i += 2
        elif args[i] == "--dir":
            which = args[i + 1]; i += 2
        elif args[i] == "--match":
            match = args[i + 1].split(","); i += 2
        elif args[i] == "--tag":
            tag = "_" + args[i + 1]; i += 2
        elif args[i] == "--skip-suite":
            skip_suite = True; i += 1
        elif args[i] == "--all-checks":
            allchecks = True; i += 1
        else:
            i += 1
    rc, _ = sh(["git", "-C", REPO, "diff", "--quiet"])
    if rc != 0:
        print("repo not clean"); return 2
    patches = sorted(glob.glob(os.path.join(VERIF, which, "*", "*.patch")) + glob.glob(os.path.join(VERIF, which, "*", "patch*.diff")))
    results = []
    props = [json.loads(l)["id"] for l in open(os.path.join(VERIF, "properties.jsonl"))]
    for p in patches:
        pid = os.path.basename(os.path.dirname(p))
        if only and pid not in only:
            continue
        name = os.path.basename(p)
        if match and not any(m in name for m in match):
            continue
        rc, out = sh(["git", "-C", REPO, "apply", p])
        if rc != 0:
            results.append(dict(property=pid, patch=name, status="does-not-apply", detail=out[-300:]))
            print(pid, name, "DOES NOT APPLY"); continue
        try:
            ok, tail = (True, "") if skip_suite else suite_ok()
            if skip_suite:
                rcb, outb = sh("go build ./...", cwd=REPO, env=clean_env())
                ok, tail = rcb == 0, outb[-600:]
            if not ok:
                results.append(dict(property=pid, patch=name, status="suite-fails", detail=tail[-600:]))
                print(pid, name, "SUITE FAILS (not a valid mutant)"); continue
            entry = dict(property=pid, patch=name, status="ok", runs=[])
            checks = props if allchecks else [pid]
            caught = False
            for chk in checks:
                for s in seeds:
                    env = dict(os.environ); env["VERIF_SEED"] = str(s)
                    t0 = time.time()
                    rc, out = sh([os.path.join(VERIF, "check"), chk, tier], cwd=VERIF, env=env, timeout=7200)
                    viol = [l for l in out.splitlines() if l.startswith("VIOLATION")]
                    what = [l.strip() for l in out.splitlines() if l.startswith("  ")][:2]
                    entry["runs"].append(dict(check=chk, seed=s, exit=rc, violations=len(viol), what=what, wall=round(time.time() - t0, 1)))
                    if rc == 1:
                        caught = True
                    if rc == 1 and not allchecks:
                        break
                if caught and not allchecks:
                    break
            entry["caught"] = caught
            results.append(entry)
            print(pid, name, "CAUGHT" if caught else "MISSED", [(r["check"], r["seed"], r["exit"]) for r in entry["runs"] if r["exit"] != 0 or not allchecks][:6], flush=True)
        finally:
            sh(["git", "-C", REPO, "checkout", "--", "."])
    os.makedirs(os.path.join(VERIF, "notes"), exist_ok=True)
    outp = os.path.join(VERIF, "notes", "audit_%s%s%s.json" % (which, "_" + "_".join(sorted(only)) if only else "", tag))
    json.dump(results, open(outp, "w"), indent=1)
    n = len([r for r in results if r.get("status") == "ok"])
    c = len([r for r in results if r.get("caught")])
    print("valid mutants: %d, caught: %d, missed: %d" % (n, c, n - c))
    return 0


if __name__ == "__main__":
    sys.exit(main())
