#!/usr/bin/env python3
"""Development aid: rebuild seeded/<id>/meta.json (the index of confirmed seeded
changes) from the per-variant meta_<x>.json files, the audits and
notes/strengthening.json.

 - round-1 variants (a, b) keep what the existing index says about the first attempt;
 - round-2/3 variants (c, d / e, f) take "detected at first attempt" from the first audit that
   was run right after they were confirmed (notes/audit_seeded_*_r2w1.json, *_r2w2.json, *_r2w3.json);
 - "detected_by" comes from the latest full audit (notes/audit_seeded.json) when present;
 - "strengthening" (what had to be added to the check) comes from notes/strengthening.json."""
import glob, json, os

V = os.path.dirname(os.path.dirname(os.path.abspath(__file__)))


def load(p, d=None):
    try:
        return json.load(open(p))
    except Exception:
        return d


def main():
    strengthening = load(os.path.join(V, "notes", "strengthening.json"), {})
    first = {}
    for p in sorted(glob.glob(os.path.join(V, "notes", "audit_seeded_*_r[234]w*.json"))):
        for r in load(p, []):
            x = r["patch"].replace("patch_", "").replace(".diff", "")
            first.setdefault((r["property"], x), bool(r.get("caught")))
    final = {}
    for r in load(os.path.join(V, "notes", "audit_seeded.json"), []):
        x = r["patch"].replace("patch_", "").replace(".diff", "")
        final[(r["property"], x)] = r
    for d in sorted(glob.glob(os.path.join(V, "seeded", "C*"))):
        pid = os.path.basename(d)
        old = load(os.path.join(d, "meta.json"), {"variants": []})
        oldv = {v["variant"]: v for v in old.get("variants", [])}
        variants = []
        for mp in sorted(glob.glob(os.path.join(d, "meta_*.json"))):
            m = load(mp, {})
            x = m.get("variant") or os.path.basename(mp)[5:-5]
            o = oldv.get(x, {})
            e = dict(variant=x, round=m.get("round", 1), patch="patch_%s.diff" % x, demo="demo_%s/run.sh <worktree>" % x,
                     summary=(m.get("summary") or "")[:600], needs=m.get("needs") or "", confirmed=m.get("confirmed"))
            fr = final.get((pid, x))
            if fr is not None:
                if fr.get("status") != "ok":
                    e["detected_by"] = "not audited on the current tree: " + str(fr.get("status"))
                elif fr.get("caught"):
                    run = [r for r in fr["runs"] if r["exit"] == 1][0]
                    e["detected_by"] = "./check %s quick (VERIF_SEED=%d): exit 1 with a VIOLATION line" % (run["check"], run["seed"])
                else:
                    e["detected_by"] = None
            else:
                e["detected_by"] = o.get("detected_by")
            if (pid, x) in first:
                e["detected_at_first_attempt"] = first[(pid, x)]
            else:
                e["detected_at_first_attempt"] = o.get("detected_at_first_attempt")
            e["strengthening"] = strengthening.get(pid, {}).get(x, o.get("strengthening"))
            if m.get("superseded"):
                e["superseded"] = m["superseded"]
                e["detected_by"] = None
            variants.append(e)
        idx = dict(property=pid,
                   origin="written by fresh sub-agents that saw only the property text and a scratch git worktree of /repo (nothing from /verif); rounds 2, 3 and 4 additionally got one-line descriptions of the earlier ideas so as not to repeat them",
                   what_i_ran="tools/confirm_seeded.py <id> (demo on clean HEAD = 0; git apply; go build + unedited suite green; demo != 0; checkout) in the scratch worktree, then tools/audit.py --dir seeded (git -C /repo apply; ./check <id> quick; git -C /repo checkout -- .)",
                   variants=variants)
        json.dump(idx, open(os.path.join(d, "meta.json"), "w"), indent=1)
        print(pid, [(v["variant"], v["detected_at_first_attempt"], bool(v["detected_by"])) for v in variants])


if __name__ == "__main__":
    main()
